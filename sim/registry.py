"""Maps claimed property ids to the module that generates and executes their sessions."""

from . import c12, c13, c14, c19, construct_props

PROPS = {}
for _m in (construct_props, c12, c13, c14, c19):
    for _p in _m.TIERS:
        PROPS[_p] = _m
