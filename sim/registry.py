"""Maps claimed property ids to the module that generates and executes their sessions."""

from . import construct_props

PROPS = {}
for _m in (construct_props,):
    for _p in _m.TIERS:
        PROPS[_p] = _m
