"""Reference models used as oracles for the construction properties.

``RefNet`` -- the described graph: insertion-ordered nodes with optional origin/destination,
and a map (u, v) -> link.  ``effects(op)`` lists the *elementary effects* of a construction
operation in the order the statement of C09 describes them, so that prefixes are well defined
for aborted / rejected calls.

``ref_valid(snapshot)`` -- the nine documented conditions of ``Network.is_valid``, written
from the docstring over a plain-data snapshot (never over the library's lookups or views).

Everything here works on refs (strings) or on opaque hashable tokens; nothing imports
sym_metanet.
"""

from __future__ import annotations


class RefNet:
    def __init__(self):
        self.nodes: dict = {}  # ref -> {"origin": ref?, "destination": ref?}
        self.edges: dict = {}  # (u, v) -> link ref

    def copy(self) -> "RefNet":
        r = RefNet()
        r.nodes = {k: dict(v) for k, v in self.nodes.items()}
        r.edges = dict(self.edges)
        return r

    # elementary effects -------------------------------------------------------------
    def apply_effect(self, e) -> None:
        k = e[0]
        if k == "node":
            self.nodes.setdefault(e[1], {})
        elif k == "edge":
            _, u, l, v = e
            self.nodes.setdefault(u, {})
            self.nodes.setdefault(v, {})
            self.edges[(u, v)] = l
        elif k == "origin":
            self.nodes.setdefault(e[2], {})["origin"] = e[1]
        elif k == "destination":
            self.nodes.setdefault(e[2], {})["destination"] = e[1]
        else:  # pragma: no cover
            raise ValueError(e)

    def signature(self):
        return (
            tuple((n, d.get("origin"), d.get("destination")) for n, d in sorted(self.nodes.items())),
            tuple(sorted((u, v, l) for (u, v), l in self.edges.items())),
        )

    def shape_signature(self):
        """Degree/attachment multiset (used as the 'distinct states' measure)."""
        indeg: dict = {n: 0 for n in self.nodes}
        outdeg: dict = {n: 0 for n in self.nodes}
        for u, v in self.edges:
            outdeg[u] += 1
            indeg[v] += 1
        return tuple(
            sorted(
                (indeg[n], outdeg[n], "origin" in d, "destination" in d)
                for n, d in self.nodes.items()
            )
        )


def path_kind(ref: str) -> str:
    return {"n": "node", "l": "link"}.get(ref[0], "other")


def path_is_wellformed(path: list) -> bool:
    """C09: starts and ends with a node, alternates node-link-node, more than one node."""
    if len(path) < 3 or len(path) % 2 == 0:
        return False
    for i, r in enumerate(path):
        if path_kind(r) != ("node" if i % 2 == 0 else "link"):
            return False
    return True


def effects(op: dict) -> list:
    """Elementary effects of a construction op, in order, *assuming it runs to completion
    on its well-formed part*.  For a malformed path: the effects of its longest well-formed
    prefix (what may legitimately have been applied before the rejection)."""
    k = op["op"]
    if k == "add_node":
        return [("node", op["n"])] if path_kind(op["n"]) == "node" else []
    if k == "add_nodes":
        return [("node", n) for n in op["ns"]]
    if k == "add_link":
        if path_kind(op["v"]) != "node":  # ill-typed downstream node: at most the upstream node is inserted
            return [("node", op["u"])] if path_kind(op["u"]) == "node" else []
        return [("edge", op["u"], op["l"], op["v"])]
    if k == "add_links":
        return [("edge", u, l, v) for u, l, v in op["items"]]
    if k == "add_origin":
        return [("origin", op["o"], op["n"])]
    if k == "add_destination":
        return [("destination", op["d"], op["n"])]
    if k == "add_path":
        path = op["path"]
        eff: list = []
        if not path or path_kind(path[0]) != "node":
            return eff
        eff.append(("node", path[0]))
        if op.get("origin") is not None:
            eff.append(("origin", op["origin"], path[0]))
        i = 1
        last = path[0]
        while i + 1 < len(path):
            if path_kind(path[i]) != "link" or path_kind(path[i + 1]) != "node":
                return eff
            eff.append(("node", path[i + 1]))
            eff.append(("edge", last, path[i], path[i + 1]))
            last = path[i + 1]
            i += 2
        if i == len(path) and len(path) >= 3 and op.get("destination") is not None:
            eff.append(("destination", op["destination"], last))
        return eff
    raise ValueError(k)


# ---- C06 reference predicate ---------------------------------------------------------


def ref_valid(snapshot) -> tuple:
    """snapshot = (nodes, edges) with nodes: list of (node, origin|None, origin_is_ramp,
    destination|None) and edges: list of (u, v, link).  Returns (valid, violated) where
    violated is the set of documented condition labels that fail."""
    nodes, edges = snapshot
    violated = set()
    indeg = {n[0]: 0 for n in nodes}
    outdeg = {n[0]: 0 for n in nodes}
    for u, v, _ in edges:
        outdeg[u] += 1
        indeg[v] += 1
    # (1) a link, origin or destination is duplicated in the network
    seen = set()
    for kind, objs in (
        ("1a", [l for _, _, l in edges]),
        ("1bc", [n[1] for n in nodes if n[1] is not None] + [n[3] for n in nodes if n[3] is not None]),
    ):
        for o in objs:
            if o in seen:
                violated.add("1")
            seen.add(o)
    for n, origin, is_ramp, dest in nodes:
        has_o = origin is not None
        has_d = dest is not None
        if has_o and has_d:
            violated.add("2")
        if indeg[n] == 0 and outdeg[n] == 0:
            violated.add("3")
        if indeg[n] == 0 and not has_o:
            violated.add("4")
        if outdeg[n] == 0 and not has_d:
            violated.add("5")
        if has_o and not is_ramp and indeg[n] > 0:
            violated.add("6")
        if has_o and outdeg[n] > 1:
            violated.add("7")
        if has_d and indeg[n] > 1:
            violated.add("8")
        if has_d and outdeg[n] > 0:
            violated.add("9")
    return (not violated), violated
