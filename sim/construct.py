"""Construction sessions: the simulated callers that build, read and validate one Network.

Shared by C06 (validation verdict), C08 (lookup coherence) and C09 (graph refinement);
``trace["prop"]`` selects which oracle is armed.  See DESIGN.md sections 4 and 5.

Operations (JSON):
  add_node n | add_nodes ns [fault] | add_link u l v | add_links items [fault]
  add_origin o n | add_destination d n | add_path path origin destination [fault]
  read what=[lookup ids] | validate raises=bool
Faults attached to bulk calls (they live in the *caller's iterator*, seam A1/Y1):
  {"kind": "iter_raise", "at": k}                 iterator raises SimIOError instead of item k
  {"kind": "reentrant", "at": [k..], "do": [...]}  before yielding item k the iterator runs
                                                   read / validate operations of another caller
"""

from __future__ import annotations

import random

from . import core
from .core import Result, SimIOError, Violation
from .refnet import RefNet, effects, path_is_wellformed, ref_valid
from .universe import Universe, gen_universe_spec

LOOKUPS = [
    "nodes_by_name",
    "links_by_name",
    "nodes_by_link",
    "origins",
    "origins_by_name",
    "origins_by_node",
    "destinations",
    "destinations_by_name",
    "destinations_by_node",
    "nodes",
    "links",
    "in_links_of",
    "out_links_of",
    "elements",
]
MUTATORS = ("add_node", "add_nodes", "add_link", "add_links", "add_origin", "add_destination", "add_path")


# --------------------------------------------------------------------------------------
# the session
# --------------------------------------------------------------------------------------


class Session:
    def __init__(self, trace: dict, res: Result):
        import sym_metanet as M

        self.M = M
        self.trace = trace
        self.prop = trace["prop"]
        self.res = res
        self.U = Universe(trace["universe"])
        # one or two networks built from the *same* element objects (sharing elements between
        # networks is legal); every op addresses one of them ("net": 0 | 1)
        n_nets = 2 if trace.get("cfg", {}).get("two_networks") else 1
        self.nets = [M.Network(name=f"net{i}") for i in range(n_nets)]
        self.models = [RefNet() for _ in range(n_nets)]
        self.was_valids = [None] * n_nets
        self.cur = 0
        self.mutated = False
        self.op_index = -1
        if trace.get("cfg", {}).get("preinit"):
            # the element objects were used before (e.g. in an earlier simulation): they carry variables
            from sym_metanet.engines.numpy import Engine as _NE

            for r, o in self.U.objs.items():
                if r[0] in "lod":
                    try:
                        o.init_vars(engine=_NE("rand"))
                    except Exception:
                        pass

    net = property(lambda self: self.nets[self.cur])
    model = property(lambda self: self.models[self.cur], lambda self, m: self.models.__setitem__(self.cur, m))
    was_valid = property(lambda self: self.was_valids[self.cur], lambda self, v: self.was_valids.__setitem__(self.cur, v))

    # -- ground truth straight from networkx -------------------------------------------
    def G(self):
        return self.net._graph

    def graph_signature(self):
        G, lab = self.G(), self.U.label
        nodes = tuple(
            (lab(n), tuple(sorted((k, lab(v)) for k, v in d.items()))) for n, d in G.nodes.items()
        )
        edges = tuple(
            (lab(u), lab(v), tuple(sorted((k, lab(x)) for k, x in d.items())))
            for u, v, d in G.edges(data=True)
        )
        return nodes, edges

    # -- C09 oracle ----------------------------------------------------------------------
    def real_as_refnet_signature(self):
        """The real graph rendered like RefNet.signature(); raises Violation on anything a
        described graph cannot contain (non-Node nodes, foreign attributes)."""
        G, lab, M = self.G(), self.U.label, self.M
        nodes = []
        for n, d in G.nodes.items():
            if not isinstance(n, M.Node):
                raise Violation("C09/non-node-in-graph", f"{lab(n)} is a node of the graph")
            extra = set(d) - {"origin", "destination"}
            if extra:
                raise Violation("C09/foreign-node-attr", f"{lab(n)} has attributes {sorted(extra)}")
            o, dd = d.get("origin"), d.get("destination")
            nodes.append((lab(n), None if o is None else lab(o), None if dd is None else lab(dd)))
        edges = []
        for u, v, d in G.edges(data=True):
            if set(d) != {"link"}:
                raise Violation("C09/foreign-edge-attr", f"edge {lab(u)}->{lab(v)} has {sorted(d)}")
            edges.append((lab(u), lab(v), lab(d["link"])))
        return tuple(sorted(nodes)), tuple(sorted(edges))

    def views_signature(self):
        """The same graph as seen through the public views Network.nodes / Network.links."""
        lab, net = self.U.label, self.net
        return (tuple(sorted(lab(n) for n in net.nodes)), tuple(sorted((lab(u), lab(v), lab(l)) for u, v, l in net.links)))

    def c09_after(self, op, raised, must_reject, aborted):
        kind = op["op"]
        eff = effects(op)
        real = self.real_as_refnet_signature()
        seen = self.views_signature()
        if seen != (tuple(n for n, _, _ in real[0]), real[1]):
            raise Violation(f"C09/views-disagree-with-graph-{kind}", f"after {op_brief(op)}: Network.nodes/links show {seen}, the graph holds {real}")
        if must_reject or aborted:
            if raised is None:
                tag = "malformed-path-accepted" if must_reject else "aborted-call-swallowed"
                raise Violation(f"C09/{tag}", f"{kind} {op_brief(op)} returned normally")
            # prefix envelope: the graph equals the model after some prefix of the effects
            # (for add_path also without the origin: the statement fixes no moment for the attachment,
            # an implementation may attach the origin first -- as the pinned tree does -- or after the
            # whole path went in, in which case a rejected call leaves its leading hops without it)
            orders = [eff]
            if kind == "add_path" and any(e[0] == "origin" for e in eff):
                orders.append([e for e in eff if e[0] != "origin"])
            for j, seq in enumerate(orders):
                m = self.model.copy()
                k = 0
                while True:
                    if m.signature() == real:
                        self.model = m
                        self.res.probes[f"rejected_prefix_{min(k, 2)}" + ("_origin_deferred" if j else "")] += 1
                        return
                    if k == len(seq):
                        break
                    m.apply_effect(seq[k])
                    k += 1
            raise Violation(
                f"C09/bad-partial-{kind}", f"graph after rejected/aborted {op_brief(op)} matches no prefix"
            )
        if raised is not None:
            raise Violation(f"C09/raised-{kind}", f"{op_brief(op)} raised {type(raised).__name__}: {raised}")
        for e in eff:
            self.model.apply_effect(e)
        if self.model.signature() != real:
            raise Violation(f"C09/graph-mismatch-{kind}", diff_sig(self.model.signature(), real))

    # -- C08 oracle ----------------------------------------------------------------------
    def read(self, what: str, where: str, tag_prefix: str = "C08/stale:"):
        """Reads one public lookup and compares it with a recomputation from the graph *now*."""
        net, G, lab = self.net, self.G(), self.U.label
        tag = f"{tag_prefix}{what}"

        def fail(msg):
            raise Violation(tag, f"{where}: {msg}")

        def check_map(got, expected_pairs, keylab, vallab):
            """expected_pairs: list of (key, value) recomputed from the graph.  Keys must be
            exact; where several graph elements map to one key any of them is accepted."""
            exp: dict = {}
            for k, v in expected_pairs:
                exp.setdefault(k, []).append(v)
            try:
                items = list(got.items())
            except Exception as e:  # a lookup that raises does not equal the recomputation
                fail(f"raised {type(e).__name__}: {e}")
            gk = [k for k, _ in items]
            if len(gk) != len(exp) or any(k not in exp for k in gk):
                fail(
                    f"keys {sorted(keylab(k) for k in gk)} != graph {sorted(keylab(k) for k in exp)}"
                )
            for k, v in items:
                if not any(v is c or (isinstance(c, tuple) and v == c) for c in exp[k]):
                    fail(f"[{keylab(k)}] -> {vallab(v)}, graph says {[vallab(c) for c in exp[k]]}")

        ident = lambda s: str(s)  # noqa: E731
        pairl = lambda p: f"({lab(p[0])},{lab(p[1])})"  # noqa: E731
        try:
            if what == "nodes_by_name":
                check_map(net.nodes_by_name, [(n.name, n) for n in G.nodes], ident, lab)
            elif what == "links_by_name":
                check_map(
                    net.links_by_name, [(d["link"].name, d["link"]) for _, _, d in G.edges(data=True)], ident, lab
                )
            elif what == "nodes_by_link":
                check_map(net.nodes_by_link, [(d["link"], (u, v)) for u, v, d in G.edges(data=True)], lab, pairl)
            elif what == "origins":
                check_map(net.origins, [(d["origin"], n) for n, d in G.nodes.items() if "origin" in d], lab, lab)
            elif what == "origins_by_name":
                check_map(
                    net.origins_by_name,
                    [(d["origin"].name, d["origin"]) for n, d in G.nodes.items() if "origin" in d],
                    ident,
                    lab,
                )
            elif what == "origins_by_node":
                check_map(net.origins_by_node, [(n, d["origin"]) for n, d in G.nodes.items() if "origin" in d], lab, lab)
            elif what == "destinations":
                check_map(
                    net.destinations, [(d["destination"], n) for n, d in G.nodes.items() if "destination" in d], lab, lab
                )
            elif what == "destinations_by_name":
                check_map(
                    net.destinations_by_name,
                    [(d["destination"].name, d["destination"]) for n, d in G.nodes.items() if "destination" in d],
                    ident,
                    lab,
                )
            elif what == "destinations_by_node":
                check_map(
                    net.destinations_by_node,
                    [(n, d["destination"]) for n, d in G.nodes.items() if "destination" in d],
                    lab,
                    lab,
                )
            elif what == "nodes":
                got = list(net.nodes)
                exp = list(G._node)
                if sorted(map(id, got)) != sorted(map(id, exp)):
                    fail(f"{sorted(lab(n) for n in got)} != {sorted(lab(n) for n in exp)}")
                if len(net.nodes) != len(exp):
                    fail("len(nodes)")
            elif what == "links":
                exp = [(u, v, d["link"]) for u, nb in G._succ.items() for v, d in nb.items()]
                got = list(net.links)
                key3 = lambda t: (id(t[0]), id(t[1]), id(t[2]))  # noqa: E731  (order is not semantic)
                if sorted(map(key3, got)) != sorted(map(key3, exp)):
                    fail(f"iteration {sorted(tuple(map(lab, t)) for t in got)} != {sorted(tuple(map(lab, t)) for t in exp)}")
                if len(net.links) != len(exp):
                    fail(f"len {len(net.links)} != {len(exp)}")
                for u, v, l in exp:
                    if net.links[u, v] is not l:
                        fail(f"links[{lab(u)},{lab(v)}] is {lab(net.links[u, v])} not {lab(l)}")
                    if (u, v) not in net.links:
                        fail(f"({lab(u)},{lab(v)}) not in links")
                if sorted(map(key3, net.out_links)) != sorted(map(key3, exp)):
                    fail("out_links (alias of links) differs from the graph")
            elif what in ("in_links_of", "out_links_of"):
                for n in list(G._node):
                    if what == "in_links_of":
                        exp = [(u, n, d["link"]) for u, d in G._pred[n].items()]
                        view = net.in_links(n)
                    else:
                        exp = [(n, v, d["link"]) for v, d in G._succ[n].items()]
                        view = net.out_links(n)
                    got = list(view)
                    key = lambda t: tuple(map(lab, t))  # noqa: E731
                    if sorted(map(key, got)) != sorted(map(key, exp)) or any(
                        not any(g[0] is e[0] and g[1] is e[1] and g[2] is e[2] for e in exp) for g in got
                    ):
                        fail(f"{what}({lab(n)}) = {sorted(map(key, got))}, graph says {sorted(map(key, exp))}")
                    if len(view) != len(exp):
                        fail(f"len({what}({lab(n)})) = {len(view)} != {len(exp)}")
            elif what == "elements":
                exp = [d["link"] for _, _, d in G.edges(data=True)]
                exp += [d["origin"] for d in G._node.values() if "origin" in d]
                exp += [d["destination"] for d in G._node.values() if "destination" in d]
                got = list(net.elements)
                # an element attached several times may be listed once or once per attachment
                if {id(x) for x in got} != {id(x) for x in exp}:
                    fail(f"elements {sorted(lab(x) for x in got)} != graph {sorted(lab(x) for x in exp)}")
            else:  # pragma: no cover
                raise core.HarnessError(f"unknown lookup {what}")
        except Violation:
            raise
        except core.HarnessError:
            raise
        except Exception as e:
            fail(f"raised {type(e).__name__}: {e}")
        self.res.probes["reads"] += 1
        if self.mutated:
            self.res.nontrivial = True
        if what in LOOKUPS[:9] and not getattr(self, "_probing", False):
            # an ordinary caller idiom: index the lookup with a key that is not there (KeyError
            # expected).  Reading must not change what the lookup says afterwards.
            absent = "__no such name__"
            if what in ("nodes_by_link", "origins", "destinations", "origins_by_node", "destinations_by_node"):
                kind = {"nodes_by_link": "l", "origins": "o", "destinations": "d", "origins_by_node": "n", "destinations_by_node": "n"}[what]
                try:
                    have = set(map(id, getattr(net, what).keys()))
                except Exception:
                    have = set()
                absent = next((o for r, o in self.U.objs.items() if r[0] == kind and id(o) not in have), None)
            if absent is not None:
                try:
                    getattr(net, what)[absent]
                except Exception:
                    pass
                self._probing = True
                try:
                    self.read(what, where + " (after an indexing read with an absent key)", tag_prefix)
                finally:
                    self._probing = False

    def note_cached(self, mutator: str):
        """Reach probe: which memoised lookups were populated when a mutator started."""
        d = self.net.__dict__
        for name in LOOKUPS[:9]:
            if name in d:
                self.res.probes[f"cached_before:{name}:{mutator}"] += 1

    # -- C06 oracle ----------------------------------------------------------------------
    def snapshot(self):
        G, M = self.G(), self.M
        nodes = []
        for n, d in G.nodes.items():
            o = d.get("origin")
            # "ramp" is decided from the universe spec (which constructor was called), never from
            # the library's own class hierarchy
            lab = self.U.label(o) if o is not None else ""
            is_ramp = lab[:1] == "o" and self.U.spec_of(lab)["cls"] in ("MeteredOnRamp", "SimplifiedMeteredOnRamp")
            nodes.append((id(n), None if o is None else id(o), is_ramp, (None if "destination" not in d else id(d["destination"]))))
        edges = [(id(u), id(v), id(d["link"])) for u, v, d in G.edges(data=True)]
        return nodes, edges

    def validate(self, raises: bool, where: str, mangle=None):
        M = self.M
        exp_ok, violated = ref_valid(self.snapshot())
        tag = "C06/"
        if raises:
            try:
                out = self.net.is_valid(raises=True)
            except M.InvalidNetworkError as e:
                if exp_ok:
                    raise Violation(tag + "raised-on-valid", f"{where}: raised {e} on a valid network")
                out = None
            except Exception as e:
                raise Violation(tag + "wrong-exception", f"{where}: is_valid(True) raised {type(e).__name__}: {e}")
            else:
                if not exp_ok:
                    raise Violation(
                        tag + "no-raise-on-invalid:" + "+".join(sorted(violated)),
                        f"{where}: is_valid(True) returned {out!r}; violated {sorted(violated)}",
                    )
                # what it returns on a valid network is not part of the statement, except that it
                # must not *report invalid* without raising
                if isinstance(out, tuple) and len(out) == 2 and out[0] is False:
                    raise Violation(tag + "raises-mode-reports-invalid-on-valid", f"{where}: is_valid(True) returned {out!r}")
        else:
            try:
                out = self.net.is_valid(raises=False)
            except Exception as e:
                raise Violation(tag + "wrong-exception", f"{where}: is_valid(False) raised {type(e).__name__}: {e}")
            if not (isinstance(out, tuple) and len(out) == 2 and isinstance(out[0], bool)):
                raise Violation(tag + "bad-return", f"{where}: is_valid(False) returned {out!r}")
            ok, msgs = out
            if mangle and isinstance(msgs, list):
                # the caller owns what it was handed: consuming / annotating the returned messages
                # must not influence later verdicts
                if mangle == "clear":
                    msgs_copy = list(msgs); msgs.clear(); msgs = msgs_copy
                elif mangle == "append":
                    msgs_copy = list(msgs); msgs.append("note added by the caller"); msgs = msgs_copy
                self.res.faults["caller_mutates_result"] += 1
            if ok != exp_ok:
                raise Violation(
                    tag + ("accepts-invalid:" + "+".join(sorted(violated)) if ok else "rejects-valid"),
                    f"{where}: verdict {ok}, conditions violated: {sorted(violated)}",
                )
            if ok and list(msgs):
                raise Violation(tag + "messages-on-valid", f"{where}: {msgs}")
            if not ok and (len(msgs) == 0 or not all(isinstance(m, str) for m in msgs)):
                raise Violation(tag + "no-message-on-invalid", f"{where}: msgs={msgs!r}")
        # probes
        p = self.res.probes
        p["validations"] += 1
        if exp_ok:
            p["valid_network_reached"] += 1
        elif len(violated) == 1:
            p["sole_violation:" + next(iter(violated))] += 1
        elif "3" in violated and (violated <= {"3", "4", "5"} or violated <= {"2", "3", "4"} or violated <= {"2", "3", "5"}):
            p["cond3_with_minimal_company"] += 1  # (3) can never be the only violated condition
        if self.was_valid is not None and self.was_valid != exp_ok:
            p["valid_to_invalid" if self.was_valid else "invalid_to_valid"] += 1
        self.was_valid = exp_ok
        if self.mutated:
            self.res.nontrivial = True
        return exp_ok

    # -- running operations --------------------------------------------------------------
    def run_inline(self, do: list, where: str):
        """Re-entrant operations of another simulated caller (reads / validations)."""
        for a in do:
            if a[0] == "read":
                if self.prop == "C08":
                    self.read(a[1], where)
                else:
                    touch_lookup(self.net, a[1])  # populate caches; coherence is C08's concern
            elif a[0] == "validate":
                if self.prop == "C06":
                    self.validate(bool(a[1]), where)
                else:
                    try:
                        self.net.is_valid(raises=False)
                    except Exception:
                        pass

    def lazy(self, items: list, fault, where: str):
        """The simulated caller's lazily evaluated argument (seam A1, yield point Y1)."""
        res = self.res
        kind = fault["kind"] if fault else None
        for k, it in enumerate(items):
            if kind == "iter_raise" and fault["at"] == k:
                res.faults["iter_raise"] += 1
                raise SimIOError(f"injected at item {k}")
            if kind == "reentrant" and k in fault["at"]:
                res.faults["reentrant_read"] += 1
                self.run_inline(fault["do"], f"{where} re-entrant before item {k}")
            yield it
        if kind == "iter_raise" and fault["at"] >= len(items):
            res.faults["iter_raise"] += 1
            raise SimIOError("injected at end of iterable")
        if kind == "reentrant" and len(items) in fault["at"]:
            res.faults["reentrant_read"] += 1
            self.run_inline(fault["do"], f"{where} re-entrant at end of iterable")

    def lazy_arg(self, op, objs, fault, where):
        """The three flavours of a lazily evaluated argument: a generator, or an object that
        also has __len__ (sized but lazy), both carrying the fault directive."""
        if op.get("sized") == "reiterable":
            sess = self

            class Reiterable:  # neither an iterator nor sized: every iter() starts a new lazy pass
                def __iter__(self_):
                    return sess.lazy(objs, fault, where)

            return Reiterable()
        if op.get("sized"):
            sess = self

            class SizedLazy:
                def __len__(self_):
                    return len(objs)

                def __iter__(self_):
                    return sess.lazy(objs, fault, where)

            return SizedLazy()
        return self.lazy(objs, fault, where)

    def mutate(self, op: dict, i: int):
        net, U = self.net, self.U
        k = op["op"]
        fault = op.get("fault")
        where = f"op#{i} {k}"
        self.note_cached(k)
        raised = None
        aborted = bool(fault and fault["kind"] == "iter_raise")
        must_reject = False
        try:
            if k == "add_node":
                r = net.add_node(U.obj(op["n"]))
            elif k == "add_nodes":
                objs = [U.obj(n) for n in op["ns"]]
                r = net.add_nodes(self.lazy_arg(op, objs, fault, where) if op.get("lazy", True) else objs)
            elif k == "add_link":
                r = net.add_link(U.obj(op["u"]), U.obj(op["l"]), U.obj(op["v"]))
            elif k == "add_links":
                objs = [(U.obj(u), U.obj(l), U.obj(v)) for u, l, v in op["items"]]
                r = net.add_links(self.lazy_arg(op, objs, fault, where) if op.get("lazy", True) else objs)
            elif k == "add_origin":
                r = net.add_origin(U.obj(op["o"]), U.obj(op["n"]))
            elif k == "add_destination":
                r = net.add_destination(U.obj(op["d"]), U.obj(op["n"]))
            elif k == "add_path":
                must_reject = not path_is_wellformed(op["path"])
                if must_reject:
                    self.res.faults["path_malformed"] += 1
                objs = [U.obj(p) for p in op["path"]]
                o = None if op.get("origin") is None else U.obj(op["origin"])
                d = None if op.get("destination") is None else U.obj(op["destination"])
                kw = {}
                if o is not None:
                    kw["origin"] = o
                if d is not None:
                    kw["destination"] = d
                arg = self.lazy_arg(op, objs, fault, where) if op.get("lazy", True) else (tuple(objs) if op.get("astuple") else objs)
                r = net.add_path(arg, **kw)
            else:  # pragma: no cover
                raise core.HarnessError(f"unknown op {k}")
        except Violation:
            raise
        except core.HarnessError:
            raise
        except Exception as e:
            raised = e
        self.mutated = True
        if op.get("fails") and raised is not None:
            self.res.faults["failing_single_call"] += 1
        outcome = "ok" if raised is None else type(raised).__name__
        if self.prop == "C09":
            self.c09_after(op, raised, must_reject, aborted)
            # the described graph as seen through the element-level lookups (what a user of the
            # network actually reads): nodes of a link, attachments of a node, names
            for w in ("nodes_by_link", "origins_by_node", "destinations_by_node", "nodes_by_name", "links_by_name"):
                self.read(w, where, "C09/lookup-disagrees-with-graph:")
            self.res.nontrivial = True
        return outcome

    def run(self):
        res, trace = self.res, self.trace
        ops = trace["ops"]
        res.n_ops = len(ops)
        for i, op in enumerate(ops):
            self.op_index = i
            self.cur = op.get("net", 0) if len(self.nets) > 1 else 0
            k = op["op"]
            fk = op["fault"]["kind"] if op.get("fault") else "-"
            try:
                if k in MUTATORS:
                    outcome = self.mutate(op, i)
                elif k == "init_elem":
                    try:
                        from sym_metanet.engines.numpy import Engine as _NE

                        self.U.obj(op["el"]).init_vars(engine=_NE("rand"))
                        outcome = "ok"
                    except Exception as e:
                        outcome = type(e).__name__
                elif k == "read":
                    for w in op["what"]:
                        if self.prop == "C08":
                            self.read(w, f"op#{i} read")
                        else:
                            touch_lookup(self.net, w)
                    outcome = "ok"
                elif k == "validate":
                    if self.prop == "C06":
                        outcome = str(self.validate(bool(op["raises"]), f"op#{i} validate", op.get("mangle")))
                    else:
                        try:
                            self.net.is_valid(raises=False)
                        except Exception:
                            pass
                        outcome = "ok"
                else:  # pragma: no cover
                    raise core.HarnessError(f"unknown op {k}")
            except Violation as v:
                res.violation = {"check": v.check, "detail": v.detail, "op_index": i}
                res.log(i, k, fk, "VIOLATION", v.check)
                return
            res.sig.append((k, fk, outcome, self.cur))
            res.log(i, k, fk, outcome, core.H(self.graph_signature()))
            res.states.add(core.H(self.model_shape()))
        # quiescent phase (bounded liveness: after the last fault everything is coherent
        # within one operation): every lookup once, one validation of each kind
        try:
            for self.cur in range(len(self.nets)):
                q = "quiescent" if self.cur == 0 else "quiescent (second network)"
                if self.prop == "C08":
                    for w in LOOKUPS:
                        self.read(w, q)
                elif self.prop == "C06":
                    self.validate(False, q)
                    self.validate(True, q)
                elif self.prop == "C09":
                    if self.model.signature() != self.real_as_refnet_signature():
                        raise Violation("C09/graph-mismatch-final", f"{q}: final graph differs from the model")
            self.cur = 0
        except Violation as v:
            res.violation = {"check": v.check, "detail": v.detail, "op_index": len(ops)}
            res.log(len(ops), "quiescent", "-", "VIOLATION", v.check)
            return
        res.log(len(ops), "quiescent", "-", "ok", core.H(self.graph_signature()))

    def model_shape(self):
        G = self.G()
        return tuple(
            sorted(
                (len(G._pred[n]), len(G._succ[n]), "origin" in d, "destination" in d)
                for n, d in G._node.items()
            )
        )


def touch_lookup(net, what: str):
    """Populate a lookup without checking it (used when C08's oracle is not armed)."""
    try:
        if what == "nodes":
            list(net.nodes)
        elif what == "links":
            list(net.links)
        elif what in ("in_links_of", "out_links_of"):
            for n in list(net._graph._node):
                list(net.in_links(n) if what == "in_links_of" else net.out_links(n))
        elif what == "elements":
            list(net.elements)
        else:
            getattr(net, what)
    except Exception:
        pass


def op_brief(op: dict) -> str:
    d = {k: v for k, v in op.items() if k not in ("op", "lazy")}
    return core.jdump(d)


def diff_sig(model_sig, real_sig) -> str:
    mn, me = model_sig
    rn, re_ = real_sig
    out = []
    for a in set(mn) ^ set(rn):
        out.append(("model " if a in set(mn) else "graph ") + f"node {a}")
    for a in set(me) ^ set(re_):
        out.append(("model " if a in set(me) else "graph ") + f"edge {a}")
    return "; ".join(sorted(out))[:400]


def execute(trace: dict) -> Result:
    res = Result()
    core.pin_process(trace.get("run_seed", 0))
    s = Session(trace, res)
    s.run()
    return res


# --------------------------------------------------------------------------------------
# generation
# --------------------------------------------------------------------------------------


def gen_valid_topology(rng: random.Random, uspec: dict, allow_selfloop=True, max_interior=4) -> dict:
    """A random *valid* METANET topology over (a subset of) the universe.
    Returns {"links": [[u,l,v]..], "origins": [[o,n]..], "dests": [[d,n]..]} or fewer items
    than wished when the universe is too small (still valid)."""
    nn, nl = len(uspec["nodes"]), len(uspec["links"])
    origins = list(range(len(uspec["origins"])))
    dests = list(range(len(uspec["dests"])))
    rng.shuffle(origins)
    rng.shuffle(dests)
    ramps = [i for i in origins if uspec["origins"][i]["cls"] in ("MeteredOnRamp", "SimplifiedMeteredOnRamp")]
    nodes = list(range(nn))
    rng.shuffle(nodes)
    links = list(range(nl))
    rng.shuffle(links)
    L: list = []  # (u, l, v)
    O: dict = {}  # node -> origin
    D: dict = {}

    def indeg(n):
        return sum(1 for _, _, v in L if v == n)

    def outdeg(n):
        return sum(1 for u, _, _ in L if u == n)

    # interior skeleton: a chain (possibly closed into a ring) of m interior nodes
    m = rng.randint(1, max(1, min(max_interior, nn - 2)))
    interior = [nodes.pop() for _ in range(m)]
    for a, b in zip(interior, interior[1:]):
        if links:
            L.append((a, links.pop(), b))
    ring = False
    if m >= 2 and links and rng.random() < 0.25:
        L.append((interior[-1], links.pop(), interior[0]))
        ring = True
    elif m == 1 and links and allow_selfloop and rng.random() < 0.1:
        L.append((interior[0], links.pop(), interior[0]))
        ring = True
    # extra interior edges (merges / bifurcations / parallel routes)
    for _ in range(rng.randint(0, 2 if max_interior <= 4 else 5)):
        if len(links) > 2 and m >= 2:
            a, b = rng.sample(interior, 2)
            if not any(u == a and v == b for u, _, v in L):
                L.append((a, links.pop(), b))

    def add_source(target):
        """give `target` an entering flow: a fresh origin node + link, or an origin on it."""
        if not origins:
            return False
        direct_ok = target not in O and target not in D and outdeg(target) == 1
        if direct_ok and (indeg(target) == 0 or ramps) and rng.random() < 0.5:
            if indeg(target) == 0:
                o = origins.pop()
                if o in ramps:
                    ramps.remove(o)
            else:
                o = ramps.pop()
                origins.remove(o)
            O[target] = o
            return True
        if nodes and links:
            s = nodes.pop()
            L.append((s, links.pop(), target))
            o = origins.pop()
            if o in ramps:
                ramps.remove(o)
            O[s] = o
            return True
        if direct_ok and indeg(target) == 0:
            o = origins.pop()
            if o in ramps:
                ramps.remove(o)
            O[target] = o
            return True
        return False

    def add_sink(source):
        if not dests:
            return False
        direct_ok = source not in O and source not in D and outdeg(source) == 0 and indeg(source) == 1
        if direct_ok and rng.random() < 0.5:
            D[source] = dests.pop()
            return True
        if nodes and links:
            t = nodes.pop()
            L.append((source, links.pop(), t))
            D[t] = dests.pop()
            return True
        if direct_ok:
            D[source] = dests.pop()
            return True
        return False

    # every interior node needs something entering and something leaving
    ok = True
    for n in interior:
        if outdeg(n) == 0 and n not in D:
            ok &= add_sink(n)
    for n in interior:
        if indeg(n) == 0 and n not in O:
            if n in D:  # would need an origin on a destination node: give it an entering link
                ok = False
            else:
                ok &= add_source(n)
    if ring and not O:
        ok &= add_source(rng.choice(interior))
    # extras: more sources / sinks / interior ramps
    for _ in range(rng.randint(0, 2)):
        cand = [n for n in interior if n not in D]
        if cand and rng.random() < 0.6:
            t = rng.choice(cand)
            if t in O and uspec["origins"][O[t]]["cls"] not in ("MeteredOnRamp", "SimplifiedMeteredOnRamp"):
                continue
            add_source(t)
        cand = [n for n in interior if n not in O and n not in D]
        if cand and rng.random() < 0.4:
            add_sink(rng.choice(cand))
    topo = {
        "links": [[f"n{u}", f"l{l}", f"n{v}"] for u, l, v in L],
        "origins": [[f"o{o}", f"n{n}"] for n, o in O.items()],
        "dests": [[f"d{d}", f"n{n}"] for n, d in D.items()],
    }
    return topo


def topo_is_valid(topo: dict, uspec: dict) -> bool:
    nodes: dict = {}
    for u, l, v in topo["links"]:
        nodes.setdefault(u, [None, False, None])
        nodes.setdefault(v, [None, False, None])
    for o, n in topo["origins"]:
        nodes.setdefault(n, [None, False, None])
        nodes[n][0] = o
        nodes[n][1] = uspec["origins"][int(o[1:])]["cls"] in ("MeteredOnRamp", "SimplifiedMeteredOnRamp")
    for d, n in topo["dests"]:
        nodes.setdefault(n, [None, False, None])[2] = d
    snap = ([(n, a[0], a[1], a[2]) for n, a in nodes.items()], [(u, v, l) for u, l, v in topo["links"]])
    return bool(nodes) and ref_valid(snap)[0]


def chains_of(items: list) -> list:
    """Greedy decomposition of link items into maximal simple chains (for add_path)."""
    left = list(items)
    out = []
    while left:
        u, l, v = left.pop(0)
        chain = [(u, l, v)]
        grown = True
        while grown:
            grown = False
            for it in left:
                if it[0] == chain[-1][2]:
                    chain.append(it)
                    left.remove(it)
                    grown = True
                    break
        out.append(chain)
    return out


def plan_calls(rng: random.Random, topo: dict, n_builders: int, faults_on: dict) -> list:
    """Cuts a target topology into builder plans and each plan into API calls (random
    route); returns one list of ops per builder."""
    link_items = [tuple(x) for x in topo["links"]]
    orig = {n: o for o, n in topo["origins"]}
    dest = {n: d for d, n in topo["dests"]}
    rng.shuffle(link_items)
    plans = [[] for _ in range(n_builders)]
    owners = [rng.randrange(n_builders) for _ in link_items]
    od_left_o = dict(orig)
    od_left_d = dict(dest)
    for b in range(n_builders):
        mine = [it for it, w in zip(link_items, owners) if w == b]
        ops = plans[b]
        route = rng.choice(["single", "bulk", "path", "mixed"])
        if rng.random() < 0.35:  # node-first style
            ns = []
            for u, _, v in mine:
                for n in (u, v):
                    if n not in ns:
                        ns.append(n)
            rng.shuffle(ns)
            if ns and rng.random() < 0.5:
                ops.append({"op": "add_nodes", "ns": ns, "lazy": True})
            else:
                ops.extend({"op": "add_node", "n": n} for n in ns)
        groups = chains_of(mine) if route in ("path", "mixed") else [[it] for it in mine]
        pending_bulk = []
        for ch in groups:
            r = route if route != "mixed" else rng.choice(["single", "bulk", "path"])
            if r == "path" or len(ch) > 1:
                path = [ch[0][0]]
                for u, l, v in ch:
                    path += [l, v]
                op = {"op": "add_path", "path": path, "origin": None, "destination": None,
                      "lazy": rng.random() < 0.6}
                if path[0] in od_left_o and rng.random() < 0.7:
                    op["origin"] = od_left_o.pop(path[0])
                if path[-1] in od_left_d and rng.random() < 0.7:
                    op["destination"] = od_left_d.pop(path[-1])
                ops.append(op)
            elif r == "bulk":
                pending_bulk.append(list(ch[0]))
                if rng.random() < 0.5:
                    ops.append({"op": "add_links", "items": pending_bulk, "lazy": True})
                    pending_bulk = []
            else:
                u, l, v = ch[0]
                ops.append({"op": "add_link", "u": u, "l": l, "v": v})
        if pending_bulk:
            ops.append({"op": "add_links", "items": pending_bulk, "lazy": True})
    # remaining origins / destinations: anywhere (before or after their links exist)
    for n, o in od_left_o.items():
        b = rng.randrange(n_builders)
        plans[b].insert(rng.randint(0, len(plans[b])), {"op": "add_origin", "o": o, "n": n})
    for n, d in od_left_d.items():
        b = rng.randrange(n_builders)
        plans[b].insert(rng.randint(0, len(plans[b])), {"op": "add_destination", "d": d, "n": n})
    return plans


def interleave(rng: random.Random, plans: list) -> list:
    """The scheduler: picks which simulated caller performs its next operation."""
    plans = [list(p) for p in plans if p]
    out = []
    while plans:
        w = [len(p) for p in plans]
        i = rng.choices(range(len(plans)), weights=w)[0]
        out.append(plans[i].pop(0))
        if not plans[i]:
            plans.pop(i)
    return out


def gen_read_op(rng: random.Random) -> dict:
    k = rng.choice([1, 1, 2, 3, 5])
    return {"op": "read", "what": rng.sample(LOOKUPS, k)}


def gen_inline(rng: random.Random, prop: str) -> list:
    do = []
    for _ in range(rng.randint(1, 3)):
        if prop == "C06" or rng.random() < 0.2:
            do.append(["validate", rng.random() < 0.3])
        else:
            do.append(["read", rng.choice(LOOKUPS)])
    return do


def attach_fault(rng: random.Random, op: dict, prop: str, enabled: set):
    """Draws a directive for a bulk call (stored in the op: replay needs no PRNG)."""
    if not op.get("lazy", True):
        return
    if rng.random() < 0.3:
        op["sized"] = rng.choice([True, "reiterable"])  # has __len__ / is merely re-iterable, but still lazy
    n = {"add_nodes": lambda: len(op["ns"]), "add_links": lambda: len(op["items"]), "add_path": lambda: len(op["path"])}[
        op["op"]
    ]()
    r = rng.random()
    if "iter_raise" in enabled and r < 0.15:
        op["fault"] = {"kind": "iter_raise", "at": rng.randint(0, n)}
    elif "reentrant" in enabled and r < 0.45:
        at = sorted(set(rng.randint(0, n) for _ in range(rng.randint(1, 2))))
        op["fault"] = {"kind": "reentrant", "at": at, "do": gen_inline(rng, prop)}


def gen_long_path(rng: random.Random, U: dict, n_points: int, malformed: bool) -> dict:
    """A very long path handed over as a list / tuple (random walk over the universe; nodes and
    links may repeat).  `malformed`: even number of points, i.e. it ends with a link."""
    nn, nl = len(U["nodes"]), len(U["links"])
    if n_points % 2 == (0 if not malformed else 1):
        n_points += 1
    path = [(f"n{rng.randrange(nn)}" if i % 2 == 0 else f"l{rng.randrange(nl)}") for i in range(n_points)]
    op = {"op": "add_path", "path": path, "origin": None, "destination": None, "lazy": False, "astuple": rng.random() < 0.5}
    if rng.random() < 0.5 and U["dests"]:
        op["destination"] = f"d{rng.randrange(len(U['dests']))}"
    return op


def gen_malformed_path(rng: random.Random, U: dict) -> dict:
    nn, nl = len(U["nodes"]), len(U["links"])
    n = lambda: f"n{rng.randrange(nn)}"  # noqa: E731
    l = lambda: f"l{rng.randrange(nl)}"  # noqa: E731
    x = lambda: rng.choice([f"x{rng.randrange(len(U['junk']))}", f"o{rng.randrange(len(U['origins']))}", f"d{rng.randrange(len(U['dests']))}"])  # noqa: E731
    shape = rng.choice(["single", "empty", "ends_in_link", "first_not_node", "wrong_at", "node_node", "link_link"])
    length = rng.choice([3, 3, 5, 7])
    good = []
    for i in range(length):
        good.append(n() if i % 2 == 0 else l())
    if shape == "single":
        path = [n()]
    elif shape == "empty":
        path = []
    elif shape == "ends_in_link":
        path = good[: rng.choice([2, 4, 6][: max(1, (length - 1) // 2)])]
    elif shape == "first_not_node":
        path = [rng.choice([l(), x()])] + good[1:]
    elif shape == "wrong_at":
        k = rng.randrange(1, length)
        path = list(good)
        path[k] = x()
    elif shape == "node_node":
        k = rng.randrange(1, length, 2)
        path = list(good)
        path[k] = n()
    else:
        k = rng.randrange(2, length, 2)
        path = list(good)
        path[k] = l()
    op = {"op": "add_path", "path": path, "origin": None, "destination": None, "lazy": rng.random() < 0.5}
    if rng.random() < 0.5 and U["origins"]:
        op["origin"] = f"o{rng.randrange(len(U['origins']))}"
    if rng.random() < 0.6 and U["dests"]:
        op["destination"] = f"d{rng.randrange(len(U['dests']))}"
    if not op["lazy"]:
        op["astuple"] = rng.random() < 0.5
    return op


def gen_failing_call(rng: random.Random, U: dict, model: RefNet) -> dict:
    """A single construction call that must fail half-way: an ill-typed (None / unhashable)
    downstream node makes networkx raise after the upstream node has been inserted."""
    nn, nl = len(U["nodes"]), len(U["links"])
    bad = [f"x{i}" for i, j in enumerate(U["junk"]) if j is None or j == "@unhashable"]
    fresh = [f"n{i}" for i in range(nn) if f"n{i}" not in model.nodes] or [f"n{rng.randrange(nn)}"]
    if rng.random() < 0.8:
        return {"op": "add_link", "u": rng.choice(fresh), "l": f"l{rng.randrange(nl)}", "v": rng.choice(bad), "fails": True}
    return {"op": "add_node", "n": rng.choice(bad), "fails": True}


def gen_chaos_op(rng: random.Random, U: dict, model: RefNet) -> dict:
    """A legal call that produces an unusual graph (replacement, sharing, self-loop, stray
    node, edges into/out of origin/destination nodes, origin+destination on one node)."""
    nn, nl, no, nd = len(U["nodes"]), len(U["links"]), len(U["origins"]), len(U["dests"])
    present = list(model.nodes) or [f"n{rng.randrange(nn)}"]
    anynode = lambda: f"n{rng.randrange(nn)}"  # noqa: E731
    pn = lambda: rng.choice(present)  # noqa: E731
    used_links = list(model.edges.values())
    if rng.random() < 0.06 and nl >= 3:
        # one bulk call in which the same link object occurs more than once
        a, b, c = (rng.choice([pn(), anynode()]) for _ in range(3))
        l1, l2, l3 = (f"l{i}" for i in rng.sample(range(nl), 3))
        items = rng.choice([[[a, l1, b], [b, l3, c], [a, l2, b], [a, l1, b]], [[a, l1, b], [a, l1, c]], [[a, l1, b], [a, l2, b], [c, l1, a]]])
        return {"op": "add_links", "items": items, "lazy": rng.random() < 0.5}
    if rng.random() < 0.05:
        # not a construction call: an element gets its variables initialised (public per-element API)
        return {"op": "init_elem", "el": rng.choice([f"l{rng.randrange(nl)}", f"o{rng.randrange(no)}", f"d{rng.randrange(nd)}"])}
    kind = rng.choice(
        ["stray", "dup_link", "replace_link", "selfloop", "edge_any", "origin_any", "dest_any",
         "dup_origin", "dup_dest", "od_same_node", "edge_from_dest", "edge_into_dest", "edge_from_origin",
         "edge_into_origin"]
    )
    onodes = [n for n, d in model.nodes.items() if "origin" in d]
    dnodes = [n for n, d in model.nodes.items() if "destination" in d]
    if kind == "stray":
        return {"op": "add_node", "n": anynode()}
    if kind == "dup_link" and used_links:
        return {"op": "add_link", "u": pn(), "l": rng.choice(used_links), "v": rng.choice([pn(), anynode()])}
    if kind == "replace_link" and model.edges:
        u, v = rng.choice(list(model.edges))
        return {"op": "add_link", "u": u, "l": f"l{rng.randrange(nl)}", "v": v}
    if kind == "selfloop":
        n = pn()
        return {"op": "add_link", "u": n, "l": f"l{rng.randrange(nl)}", "v": n}
    if kind == "origin_any":
        return {"op": "add_origin", "o": f"o{rng.randrange(no)}", "n": rng.choice([pn(), anynode()])}
    if kind == "dest_any":
        return {"op": "add_destination", "d": f"d{rng.randrange(nd)}", "n": rng.choice([pn(), anynode()])}
    if kind == "dup_origin" and onodes:
        o = model.nodes[rng.choice(onodes)]["origin"]
        return {"op": "add_origin", "o": o, "n": pn()}
    if kind == "dup_dest" and dnodes:
        d = model.nodes[rng.choice(dnodes)]["destination"]
        return {"op": "add_destination", "d": d, "n": pn()}
    if kind == "od_same_node" and (onodes or dnodes):
        if dnodes and (not onodes or rng.random() < 0.5):
            return {"op": "add_origin", "o": f"o{rng.randrange(no)}", "n": rng.choice(dnodes)}
        return {"op": "add_destination", "d": f"d{rng.randrange(nd)}", "n": rng.choice(onodes)}
    if kind == "edge_from_dest" and dnodes:
        return {"op": "add_link", "u": rng.choice(dnodes), "l": f"l{rng.randrange(nl)}", "v": pn()}
    if kind == "edge_into_dest" and dnodes:
        return {"op": "add_link", "u": pn(), "l": f"l{rng.randrange(nl)}", "v": rng.choice(dnodes)}
    if kind == "edge_from_origin" and onodes:
        return {"op": "add_link", "u": rng.choice(onodes), "l": f"l{rng.randrange(nl)}", "v": pn()}
    if kind == "edge_into_origin" and onodes:
        return {"op": "add_link", "u": pn(), "l": f"l{rng.randrange(nl)}", "v": rng.choice(onodes)}
    return {"op": "add_link", "u": rng.choice([pn(), anynode()]), "l": f"l{rng.randrange(nl)}", "v": rng.choice([pn(), anynode()])}


def gen_repair_ops(rng: random.Random, U: dict, model: RefNet) -> list:
    """Additions that can make an invalid network valid again: give a source-less node an
    origin, a sink-less node a destination (conditions 4 and 5 are repairable by adding)."""
    out = []
    indeg = {n: 0 for n in model.nodes}
    outdeg = {n: 0 for n in model.nodes}
    for u, v in model.edges:
        outdeg[u] += 1
        indeg[v] += 1
    for n, d in model.nodes.items():
        if indeg[n] == 0 and "origin" not in d and U["origins"]:
            out.append({"op": "add_origin", "o": f"o{rng.randrange(len(U['origins']))}", "n": n})
        if outdeg[n] == 0 and "destination" not in d and U["dests"]:
            out.append({"op": "add_destination", "d": f"d{rng.randrange(len(U['dests']))}", "n": n})
    rng.shuffle(out)
    return out[: rng.randint(1, 3)]


def generate(prop: str, run_seed: int, tier: str = "quick") -> dict:
    rng = core.rng_of(run_seed)
    name_mode = rng.choice(["unique", "unique", "unique", "dup", "mixed"]) if prop == "C08" else (
        rng.choice(["unique", "unique", "dup", "mixed"])
    )
    big = rng.random() < 0.05  # swarm: now and then a much larger universe and history
    huge = rng.random() < 0.012  # ... and rarely one beyond any small-size fast path (> 64 nodes)
    sizes = {}
    if huge:
        big = True
        sizes = {"n_nodes": (66, 90), "n_links": (70, 100), "n_origins": (6, 10), "n_dests": (5, 8)}
    elif big:
        sizes = {"n_nodes": (9, 14), "n_links": (10, 18), "n_origins": (4, 8), "n_dests": (3, 6)}
    U = gen_universe_spec(rng, name_mode=name_mode, **sizes)
    # swarm: which fault kinds this run may use; one third of runs are fault-free
    enabled: set = set()
    if rng.random() > 0.34:
        for f in ("iter_raise", "reentrant", "malformed", "chaos"):
            if rng.random() < 0.6:
                enabled.add(f)
    topo = gen_valid_topology(rng, U, max_interior=(70 if huge else 8) if big else 4)
    n_builders = rng.randint(1, 6 if big else 4)
    plans = plan_calls(rng, topo, n_builders, enabled)
    ops = interleave(rng, plans)
    # other callers: reader, validator, chaos builder, malformed-path caller
    model = RefNet()
    final = []
    read_p = {"C08": 0.55, "C06": 0.15, "C09": 0.1}[prop]
    val_p = {"C08": 0.05, "C06": 0.6, "C09": 0.05}[prop]
    chaos_p = 0.12 if "chaos" in enabled else 0.0
    mal_p = ({"C09": 0.25}.get(prop, 0.08)) if "malformed" in enabled else 0.0

    def push(op):
        if op["op"] in ("add_nodes", "add_links", "add_path"):
            attach_fault(rng, op, prop, enabled)
        final.append(op)
        # nominal model used only to steer generation
        if op["op"] in MUTATORS:
            eff = effects(op)
            f = op.get("fault")
            if f and f["kind"] == "iter_raise":
                eff = []
            for e in eff:
                model.apply_effect(e)

    def sprinkle():
        while True:
            r = rng.random()
            if r < read_p:
                push(gen_read_op(rng))
            elif r < read_p + val_p:
                v = {"op": "validate", "raises": rng.random() < 0.3}
                if prop == "C06" and not v["raises"] and rng.random() < 0.25:
                    v["mangle"] = rng.choice(["clear", "append"])
                    push(v)
                    v = {"op": "validate", "raises": rng.random() < 0.3}
                push(v)
            else:
                break
            if rng.random() < 0.5:
                break

    sprinkle()
    if big and rng.random() < 0.6:
        # a very long path (list / tuple), well-formed or ending with a link
        lp = gen_long_path(rng, U, rng.choice([25, 31, 41, 128, 135, 160]) if huge or rng.random() < 0.3 else rng.randint(25, 45),
                           malformed=(prop != "C14" and rng.random() < 0.4))
        ops = list(ops)
        ops.insert(rng.randint(0, len(ops)), lp)
    fail_p = 0.08 if ("chaos" in enabled and prop != "C09") else 0.0
    for op in ops:
        if rng.random() < chaos_p:
            push(gen_chaos_op(rng, U, model))
            sprinkle()
        if rng.random() < fail_p:
            push(gen_failing_call(rng, U, model))
            sprinkle()
        if rng.random() < mal_p:
            push(gen_malformed_path(rng, U))
            sprinkle()
        push(op)
        sprinkle()
    # after the target is complete: perturb, check, repair, check
    tail = (rng.randint(0, 3) if enabled else rng.randint(0, 1)) + (rng.randint(0, 6) if big else 0)
    for _ in range(tail):
        r = rng.random()
        if r < 0.55 or "chaos" in enabled:
            push(gen_chaos_op(rng, U, model))
        elif "malformed" in enabled:
            push(gen_malformed_path(rng, U))
        else:
            push(gen_chaos_op(rng, U, model))
        sprinkle()
        if rng.random() < 0.5:
            for rop in gen_repair_ops(rng, U, model):
                push(rop)
                sprinkle()
    cfg = {"enabled": sorted(enabled), "topology": topo, "big": big, "preinit": rng.random() < 0.3}
    if rng.random() < 0.25:
        # a second network over the same element objects receives part of the traffic
        cfg["two_networks"] = True
        model2 = RefNet()
        out = []
        for op in final:
            out.append(op)
            r = rng.random()
            if r < 0.35:
                if op["op"] in MUTATORS and rng.random() < 0.6:
                    o2 = dict(op, net=1)  # the same call (same objects) on the other network
                    o2.pop("fault", None)
                elif op["op"] in MUTATORS:
                    o2 = dict(gen_chaos_op(rng, U, model2), net=1)
                else:
                    o2 = dict(op, net=1)
                if o2["op"] in MUTATORS:
                    for e in effects(o2):
                        model2.apply_effect(e)
                out.append(o2)
        final = out
    return {"prop": prop, "run_seed": run_seed, "universe": U, "cfg": cfg, "ops": final}


# --------------------------------------------------------------------------------------
# minimisation support
# --------------------------------------------------------------------------------------


def simplify_op(op: dict):
    """Yields strictly simpler variants of one op (used after ddmin over whole ops)."""
    if op.get("fault"):
        o = dict(op)
        del o["fault"]
        yield o
        f = op["fault"]
        if f["kind"] == "reentrant":
            if len(f["do"]) > 1:
                for i in range(len(f["do"])):
                    o = dict(op)
                    o["fault"] = dict(f, do=f["do"][:i] + f["do"][i + 1 :])
                    yield o
            if len(f["at"]) > 1:
                for i in range(len(f["at"])):
                    o = dict(op)
                    o["fault"] = dict(f, at=f["at"][:i] + f["at"][i + 1 :])
                    yield o
    k = op["op"]
    if k == "add_nodes" and len(op["ns"]) > 1:
        for i in range(len(op["ns"])):
            yield dict(op, ns=op["ns"][:i] + op["ns"][i + 1 :])
    if k == "add_links" and len(op["items"]) > 1:
        for i in range(len(op["items"])):
            yield dict(op, items=op["items"][:i] + op["items"][i + 1 :])
    if k == "add_path":
        if len(op["path"]) > 2:
            yield dict(op, path=op["path"][:-2])
            yield dict(op, path=op["path"][2:])
        if op.get("origin") is not None:
            yield dict(op, origin=None)
        if op.get("destination") is not None:
            yield dict(op, destination=None)
    if k == "read" and len(op["what"]) > 1:
        for i in range(len(op["what"])):
            yield dict(op, what=op["what"][:i] + op["what"][i + 1 :])
