"""Shared machinery for the dynamics properties (C12, C13, C14, C19).

* building networks from (universe spec, construction ops) -- the same op vocabulary as the
  construction sessions, so a "fresh twin" is simply the same ops on a new Universe;
* value generation (admissible numeric states / actions / disturbances) from a seed stored
  in the trace;
* the line-event seam (``sys.settrace`` restricted to files of sym_metanet): count events,
  raise into the library at event k, or run another simulated caller's action at event k;
* comparison helpers (bitwise numeric equality, compiled-function equality at random points).
"""

from __future__ import annotations

import os
import random
import sys

import numpy as np

from . import core
from .construct import chains_of, gen_valid_topology, topo_is_valid  # noqa: F401
from .universe import Universe, gen_dest_spec, gen_link_spec, gen_origin_spec

STEPPABLE_ORIGIN_KINDS = [
    ("MainstreamOrigin", None),
    ("MeteredOnRamp", "in"),
    ("MeteredOnRamp", "out"),
    ("SimplifiedMeteredOnRamp", "limited"),
    ("SimplifiedMeteredOnRamp", "unlimited"),
]
ALL_ORIGIN_KINDS = [("Origin", None)] + STEPPABLE_ORIGIN_KINDS


# ---- universes and topologies for dynamics -------------------------------------------


def gen_dyn_universe(rng: random.Random, ideal_origins=False, name_mode="unique", big=False) -> dict:
    nn = rng.randint(4, 8) if not big else rng.randint(6, 9)
    nl = rng.randint(4, 9) if not big else rng.randint(7, 10)
    no = rng.randint(2, 4)
    nd = rng.randint(2, 3)
    huge = rng.random() < 0.04  # swarm: now and then a much larger network
    if huge:
        nn, nl, no, nd = rng.randint(10, 14), rng.randint(12, 18), rng.randint(4, 7), rng.randint(3, 5)
    kinds = ALL_ORIGIN_KINDS if ideal_origins else STEPPABLE_ORIGIN_KINDS

    def names(prefix, n):
        if name_mode == "auto":
            return [None] * n
        out = [f"{prefix}{i}" for i in range(n)]
        if name_mode == "dup" and n > 1:
            a, b = rng.sample(range(n), 2)
            out[b] = out[a]
        return out

    links = [gen_link_spec(rng, i, x, empty_vsl=False) for i, x in enumerate(names("L", nl))]
    if rng.random() < 0.2:  # coincidences: some links have exactly the same parameters
        for _ in range(rng.randint(1, 3)):
            a, b = rng.sample(range(nl), 2)
            links[b] = dict(links[a], name=links[b]["name"])
    return {
        "user_subclasses": rng.choice([True, "falsy"]) if rng.random() < 0.15 else False,
        "nodes": [{"name": x} for x in names("N", nn)],
        "links": links,
        "origins": [gen_origin_spec(rng, x, kinds) for x in names("O", no)],
        "dests": [gen_dest_spec(rng, x) for x in names("D", nd)],
        "junk": ["str"],
        "huge": huge,
    }


def gen_dyn_topology(rng: random.Random, uspec: dict) -> dict:
    for _ in range(50):
        topo = gen_valid_topology(rng, uspec, allow_selfloop=False, max_interior=8 if uspec.get("huge") else 4)
        if topo["links"] and topo_is_valid(topo, uspec):
            return topo
    raise core.HarnessError("could not draw a valid topology")


def canonical_ops(topo: dict) -> list:
    ops = [{"op": "add_link", "u": u, "l": l, "v": v} for u, l, v in topo["links"]]
    ops += [{"op": "add_origin", "o": o, "n": n} for o, n in topo["origins"]]
    ops += [{"op": "add_destination", "d": d, "n": n} for d, n in topo["dests"]]
    return ops


def lazy_items(items, fault):
    """Caller-side lazy iterable; with fault {"kind": "iter_raise", "at": k} it raises SimIOError
    instead of delivering item k."""
    for i, it in enumerate(items):
        if fault and fault.get("kind") == "iter_raise" and fault["at"] == i:
            raise core.SimIOError(f"injected at item {i}")
        yield it
    if fault and fault.get("kind") == "iter_raise" and fault["at"] >= len(items):
        raise core.SimIOError("injected at end of iterable")


def apply_build_op(net, U: Universe, op: dict):
    k = op["op"]
    if op.get("fault"):
        f = op["fault"]
        if k == "add_nodes":
            return net.add_nodes(lazy_items([U.obj(n) for n in op["ns"]], f))
        if k == "add_links":
            return net.add_links(lazy_items([(U.obj(u), U.obj(l), U.obj(v)) for u, l, v in op["items"]], f))
        if k == "add_path":
            kw = {}
            if op.get("origin") is not None:
                kw["origin"] = U.obj(op["origin"])
            if op.get("destination") is not None:
                kw["destination"] = U.obj(op["destination"])
            return net.add_path(lazy_items([U.obj(p) for p in op["path"]], f), **kw)
    if k == "add_node":
        net.add_node(U.obj(op["n"]))
    elif k == "add_nodes":
        net.add_nodes(U.obj(n) for n in op["ns"])
    elif k == "add_link":
        net.add_link(U.obj(op["u"]), U.obj(op["l"]), U.obj(op["v"]))
    elif k == "add_links":
        net.add_links((U.obj(u), U.obj(l), U.obj(v)) for u, l, v in op["items"])
    elif k == "add_origin":
        net.add_origin(U.obj(op["o"]), U.obj(op["n"]))
    elif k == "add_destination":
        net.add_destination(U.obj(op["d"]), U.obj(op["n"]))
    elif k == "add_path":
        kw = {}
        if op.get("origin") is not None:
            kw["origin"] = U.obj(op["origin"])
        if op.get("destination") is not None:
            kw["destination"] = U.obj(op["destination"])
        net.add_path((U.obj(p) for p in op["path"]), **kw)
    else:
        raise core.HarnessError(f"not a build op: {k}")


def complete_missing(net, U: Universe, op: dict):
    """The simulated caller after a failed add_path that is not re-issued as a whole: it looks
    at the graph (public Network.graph) and adds, with single calls, whatever part of the
    intended path is not there.  How much a failed call leaves behind is not promised by the
    library, so nothing is assumed about it."""
    from .refnet import effects

    intended = dict(op, path=[p for p in op["path"] if p != op.get("tail")], destination=None)
    G = net.graph
    for e in effects(intended):
        if e[0] == "node":
            if U.obj(e[1]) not in G:
                net.add_node(U.obj(e[1]))
        elif e[0] == "edge":
            u, l, v = U.obj(e[1]), U.obj(e[2]), U.obj(e[3])
            if not (G.has_edge(u, v) and G[u][v].get("link") is l):
                net.add_link(u, l, v)
        elif e[0] == "origin":
            n = U.obj(e[2])
            if not (n in G and G.nodes[n].get("origin") is U.obj(e[1])):
                net.add_origin(U.obj(e[1]), n)


def build(uspec: dict, ops: list, transform=None, on_early_step=None):
    """Fresh objects + fresh network.  ``transform(U)`` may adjust element parameters
    (renaming, turn-rate scaling) before anything is built."""
    import sym_metanet as M

    U = Universe(uspec)
    if transform is not None:
        transform(U)
    net = M.Network(name="net")
    for op in ops:
        if op.get("fault") or op.get("malformed"):
            try:  # a call that is expected to fail half-way and is retried by a later op
                apply_build_op(net, U, op)
            except Exception:
                pass
            if op.get("counts"):
                complete_missing(net, U, op)
        elif op["op"] == "early_step":
            if on_early_step is not None:
                on_early_step(U, net)
        else:
            apply_build_op(net, U, op)
    return U, net


def topo_of_ops(ops: list) -> dict:
    """Final topology described by a list of build ops (later attachments replace)."""
    from .refnet import RefNet, effects

    m = RefNet()
    for op in ops:
        if op["op"] == "early_step" or ((op.get("fault") or op.get("malformed")) and not op.get("counts")):
            continue  # partial effects of failed calls are a subset of those of their retries
        if op.get("counts"):  # a failed add_path that delivered its whole well-formed part and is NOT retried
            op = dict(op, path=[p for p in op["path"] if p != op.get("tail")], destination=None)
        for e in effects(op):
            m.apply_effect(e)
    return {
        "links": [[u, l, v] for (u, v), l in m.edges.items()],
        "origins": [[d["origin"], n] for n, d in m.nodes.items() if "origin" in d],
        "dests": [[d["destination"], n] for n, d in m.nodes.items() if "destination" in d],
    }


def element_refs(topo: dict) -> list:
    return [l for _, l, _ in topo["links"]] + [o for o, _ in topo["origins"]] + [d for d, _ in topo["dests"]]


def has_merging_ramp(topo: dict, uspec: dict) -> bool:
    into = {v for _, _, v in topo["links"]}
    return any(n in into for _, n in topo["origins"])


# ---- variables of each element kind ----------------------------------------------------


def var_layout(spec: dict) -> dict:
    """{group: {var: size}} for an element spec."""
    c = spec["cls"]
    if c in ("Link", "LinkWithVsl"):
        lay = {"states": {"rho": spec["N"], "v": spec["N"]}}
        if c == "LinkWithVsl":
            lay["actions"] = {"v_ctrl": len(spec["vsl"])}
        return lay
    if c == "MainstreamOrigin":
        return {"states": {"w": 1}, "actions": {"v_ctrl": 1}, "disturbances": {"d": 1}}
    if c == "MeteredOnRamp":
        return {"states": {"w": 1}, "actions": {"r": 1}, "disturbances": {"d": 1}}
    if c == "SimplifiedMeteredOnRamp":
        return {"states": {"w": 1}, "actions": {"q": 1}, "disturbances": {"d": 1}}
    if c == "CongestedDestination":
        return {"disturbances": {"d": 1}}
    if c == "CountingDestination":  # caller-defined, sim/universe.py
        return {"states": {"n": 1}}
    return {}


RANGES = {
    ("l", "rho"): (5.0, 110.0), ("l", "v"): (15.0, 115.0), ("l", "v_ctrl"): (30.0, 120.0),
    ("o", "w"): (0.0, 120.0), ("o", "v_ctrl"): (30.0, 130.0), ("o", "d"): (300.0, 3500.0),
    ("o", "r"): (0.0, 1.0), ("o", "q"): (100.0, 2200.0), ("d", "d"): (5.0, 90.0), ("d", "n"): (0.0, 5.0),
}


def gen_values(seed: int, uspec: dict, refs: list, neg: bool = False, edge: bool = False) -> dict:
    """{ref: {var: [floats]}} -- admissible values, a pure function of the stored seed.
    ``neg``: a few states are made negative (METANET can produce them; the positive_init_*
    options exist for that case)."""
    g = np.random.default_rng(core.H("vals", seed) % (2**63))
    U = {"n": "nodes", "l": "links", "o": "origins", "d": "dests"}
    out = {}
    for r in sorted(refs):
        spec = uspec[U[r[0]]][int(r[1:])]
        vals = {}
        for grp, vs in var_layout(spec).items():
            for var, n in vs.items():
                lo, hi = RANGES[(r[0], var)]
                vals[var] = [float(x) for x in g.uniform(lo, hi, size=n)]
                if neg and grp == "states" and n and g.random() < 0.5:
                    vals[var][int(g.integers(n))] *= -0.1
                if edge and n and g.random() < 0.3:  # boundary values: exact zero, tiny, huge
                    vals[var][int(g.integers(n))] = float(g.choice([0.0, 1e-12, 1e6]))
                if edge and n and g.random() < 0.3:  # integer-valued floats, equal values within a vector
                    vals[var] = [float(round(vals[var][0]))] * n
        if edge and out and vals and g.random() < 0.5:  # exactly the same values as another element of that shape
            for prev in list(out.values()):
                if prev.keys() == vals.keys() and all(len(prev[k]) == len(vals[k]) for k in vals):
                    vals = {k: list(v) for k, v in prev.items()}
                    break
        if vals:
            out[r] = vals
    return out


def gen_opts(rng: random.Random, allow_delta=True) -> dict:
    o = {
        "tau": round(rng.uniform(15, 25) / 3600, 8),
        "eta": round(rng.uniform(30, 70), 3),
        "kappa": round(rng.uniform(20, 50), 3),
        "T": round(rng.uniform(8, 12) / 3600, 8),
    }
    if allow_delta and rng.random() < 0.4:
        o["delta"] = round(rng.uniform(0.005, 0.02), 5)
    if rng.random() < 0.4:
        o["phi"] = round(rng.uniform(1.0, 3.0), 3)
    for f in ("positive_init_speed", "positive_init_density", "positive_init_queue",
              "positive_next_speed", "positive_next_density", "positive_next_queue"):
        if rng.random() < 0.2:
            o[f] = True
    return o


def numeric_init(U: Universe, values: dict, zero_d, alias=None, share: bool = True, dtype=None) -> dict:
    """init_conditions for the NumPy engine: fresh arrays, keyed by element object.
    ``alias``: list of [[ref, var], [ref, var]] pairs that share ONE array object when
    ``share`` (the network under test) or hold equal-valued distinct copies (the twin)."""
    ic = {}
    for r, vs in values.items():
        d = {}
        for var, x in vs.items():
            size = var_layout(U.spec_of(r))
            n = next(v[var] for v in size.values() if var in v)
            scalar = r[0] != "l"
            if scalar and zero_d == "pyfloat":
                d[var] = float(x[0])  # plain Python numbers for the scalar quantities
            else:
                d[var] = np.array(x[0], dtype=dtype or float) if (scalar and zero_d) else np.array(x, dtype=dtype or float)
            assert scalar or d[var].shape == (n,)
        ic[U.obj(r)] = d
    for (r1, v1), (r2, v2) in alias or []:
        if r1 in values and r2 in values and v1 in values[r1] and v2 in values[r2]:
            a_ = ic[U.obj(r1)][v1]
            ic[U.obj(r2)][v2] = a_ if (share or not hasattr(a_, "copy")) else a_.copy()
    return ic


def symbolic_init(U: Universe, refs: list, sym_type: str, tag: str = "") -> dict:
    """Caller-made symbols for every variable of every element."""
    import casadi as cs

    T = getattr(cs, sym_type)
    ic = {}
    for r in refs:
        if r[0] == "n":
            continue
        d = {}
        for grp, vs in var_layout(U.spec_of(r)).items():
            for var, n in vs.items():
                d[var] = T.sym(f"{var}_{r}{tag}", n, 1)
        if d:
            ic[U.obj(r)] = d
    return ic


def step_kwargs(opts: dict) -> dict:
    return dict(opts)


# ---- snapshots for "caller data untouched" ------------------------------------------------


def snap_value(v):
    import casadi as cs

    if isinstance(v, np.ndarray):
        return ("nd", v.shape, str(v.dtype), v.tobytes())
    if isinstance(v, (cs.SX, cs.MX)):
        return ("sym", type(v).__name__, v.shape, str(v), bool(v.is_valid_input()))
    return ("py", repr(v))


def snap_init_conditions(ic):
    if ic is None:
        return None
    return (
        id(ic),
        tuple(
            (id(el), id(d), tuple((k, id(v), snap_value(v)) for k, v in d.items())) for el, d in ic.items()
        ),
    )


PARAMS = ("N", "lam", "L", "rho_max", "rho_crit", "v_free", "a", "turnrate", "C", "flow_eq_type", "vsl", "alpha", "name")


def snap_params(U: Universe):
    out = []
    for r, o in U.objs.items():
        row = [r]
        for p in PARAMS:
            if hasattr(o, p):
                v = getattr(o, p)
                row.append((p, id(v) if not isinstance(v, (int, float, str, list)) else None, repr(v)))
        out.append(tuple(row))
    return tuple(out)


# ---- reading results ------------------------------------------------------------------------


def value_type_ok(v, kind: str) -> bool:
    import casadi as cs

    if kind == "numpy":
        return isinstance(v, (np.ndarray, np.generic, float, int))
    return isinstance(v, cs.SX if kind == "sx" else cs.MX)


def numeric_bytes(v):
    if not isinstance(v, (np.ndarray, np.generic, float, int)):
        return (("type", type(v).__name__), str(v)[:80].encode())
    a = np.asarray(v)
    return (a.shape if a.shape != () else (1,), a.astype(float).tobytes())


def next_states_numeric(U: Universe, net) -> dict:
    out = {}
    for el, ns in net.next_states.items():
        out[U.label(el)] = {k: numeric_bytes(v) for k, v in ns.items()}
    return out


def diff_numeric(a: dict, b: dict) -> str:
    if a.keys() != b.keys():
        return f"elements {sorted(a)} vs {sorted(b)}"
    for r in a:
        if a[r].keys() != b[r].keys():
            return f"{r}: vars {sorted(a[r])} vs {sorted(b[r])}"
        for k in a[r]:
            if a[r][k] != b[r][k]:
                if a[r][k][0][:1] == ("type",) or b[r][k][0][:1] == ("type",):
                    return f"{r}.{k}: {a[r][k][0]} vs {b[r][k][0]}"
                x = np.frombuffer(a[r][k][1]); y = np.frombuffer(b[r][k][1])
                return f"{r}.{k}: {x.tolist()} vs {y.tolist()}"
    return ""


def eval_function(F, seed: int):
    """Evaluates a casadi.Function at a seeded random point; returns layout + output bytes."""
    g = np.random.default_rng(core.H("pt", seed) % (2**63))
    args = []
    for i in range(F.n_in()):
        n = F.size1_in(i) * F.size2_in(i)
        nm = F.name_in(i)
        # plausible magnitudes by leading variable name (only to stay in the smooth region)
        if nm.startswith("rho"):
            lo, hi = 5.0, 110.0
        elif nm.startswith("v"):
            lo, hi = 15.0, 120.0
        elif nm.startswith("w"):
            lo, hi = 0.0, 120.0
        elif nm.startswith("r_") or nm == "r":
            lo, hi = 0.0, 1.0
        elif nm.startswith("d") or nm.startswith("q"):
            lo, hi = 5.0, 3000.0
        else:
            lo, hi = 1.0, 150.0
        args.append(g.uniform(lo, hi, size=(F.size1_in(i), F.size2_in(i))) if n else np.zeros((F.size1_in(i), F.size2_in(i))))
    outs = F(*args)
    if not isinstance(outs, (list, tuple)):
        outs = [outs]
    layout = (
        tuple((F.name_in(i), F.size1_in(i), F.size2_in(i)) for i in range(F.n_in())),
        tuple((F.name_out(i), F.size1_out(i), F.size2_out(i)) for i in range(F.n_out())),
    )
    return layout, tuple(np.array(o, dtype=float).tobytes() for o in outs)


def symbol_keys(U: Universe, net, extra=None) -> dict:
    """{hash of symbolic primitive: (element ref, variable, index)} for every variable currently
    held by the elements of `net` (CasADi introspection: symvar + node hash)."""
    import casadi as cs

    keys = {}
    for el in net.elements:
        r = U.label(el)
        for grp in ("states", "actions", "disturbances"):
            for var, v in (getattr(el, grp) or {}).items():
                if isinstance(v, (cs.SX, cs.MX)):
                    for i, x in enumerate(cs.symvar(v)):
                        keys.setdefault(x.__hash__(), (r, var, i))
    for name, sym in (extra or {}).items():
        for i, x in enumerate(cs.symvar(sym)):
            keys.setdefault(x.__hash__(), ("param", name, i))
    return keys


def eval_function_keyed(F, keys: dict, seed: int):
    """Evaluates a casadi.Function at a point defined per *variable* (element ref, variable name,
    index), not per argument position, and returns the multiset of output values.  Two functions
    that differ only in how they lay out their arguments and results compare equal: the layout
    is no part of C12 / C13 / C19 (it is C04's subject)."""
    import casadi as cs

    ranges = {"rho": (5.0, 110.0), "v": (15.0, 120.0), "w": (0.0, 120.0), "r": (0.0, 1.0), "q": (100.0, 2200.0),
              "d": (5.0, 3000.0), "v_ctrl": (30.0, 120.0), "T": (0.002, 0.004)}
    is_sx = F.is_a("SXFunction")
    ins = F.sx_in() if is_sx else F.mx_in()
    args = []
    for a in ins:
        prim = cs.symvar(a)
        vals = []
        for x in prim:
            key = keys.get(x.__hash__(), ("unknown", str(x), 0))
            lo, hi = ranges.get(key[1], (1.0, 150.0))
            n = x.numel()
            g = np.random.default_rng(core.H("keyed", seed, key) % (2**63))
            vals.append(g.uniform(lo, hi, size=(n, 1)))
        if prim:
            h = cs.Function("h", prim, [a])
            out = h(*vals)
            args.append(np.array(out, dtype=float))
        else:
            args.append(np.zeros((a.size1(), a.size2())))
    outs = F(*args)
    if not isinstance(outs, (list, tuple)):
        outs = [outs]
    flat = np.concatenate([np.array(o, dtype=float).ravel() for o in outs]) if outs else np.zeros(0)
    nan = int(np.isnan(flat).sum())
    return (int(flat.size), nan, np.sort(flat[~np.isnan(flat)]).tobytes())


# ---- the line-event seam (T1 / Y3) ---------------------------------------------------------

_PKG_DIR = None


def pkg_dir() -> str:
    global _PKG_DIR
    if _PKG_DIR is None:
        import sym_metanet

        _PKG_DIR = os.path.dirname(os.path.abspath(sym_metanet.__file__)) + os.sep
    return _PKG_DIR


_CLEANUP_LINES: dict = {}


def cleanup_lines(filename: str) -> frozenset:
    """Line numbers of a source file that belong to the library's own clean-up code: bodies of
    ``finally`` / ``except`` clauses and of ``__exit__`` / ``__aexit__`` / ``__del__``.  An injected
    interruption or re-entrant call is never placed *inside* clean-up (it is deferred to the next
    line event outside it): no scoped restore (``try/finally``, context manager) can survive an
    asynchronous exception in its own last statement, the statements of the properties speak of
    calls, not of that, and the pinned tree has no such code -- so placing faults there could only
    raise alarms on restructurings under which the properties hold."""
    got = _CLEANUP_LINES.get(filename)
    if got is None:
        import ast

        lines = set()
        try:
            tree = ast.parse(open(filename, encoding="utf-8").read())
        except Exception:
            tree = None
        if tree is not None:
            def span(nodes):
                for n in nodes:
                    for m in ast.walk(n):
                        if hasattr(m, "lineno"):
                            lines.update(range(m.lineno, getattr(m, "end_lineno", m.lineno) + 1))

            for node in ast.walk(tree):
                if isinstance(node, ast.Try):
                    span(node.finalbody)
                    for h in node.handlers:
                        span(h.body)
                elif isinstance(node, (ast.FunctionDef, ast.AsyncFunctionDef)) and node.name in ("__exit__", "__aexit__", "__del__"):
                    span(node.body)
                # inert lines: nothing on them can raise, so an exception "at" them can only be an
                # asynchronous one landing between two statements (e.g. between acquiring a scoped
                # state and entering the ``try`` that releases it) -- same argument as above.  An
                # injected exception models the first operation of the line about to run failing.
                if isinstance(node, ast.Try):
                    lines.add(node.lineno)
                elif isinstance(node, (ast.Pass, ast.Break, ast.Continue, ast.Global, ast.Nonlocal)):
                    lines.add(node.lineno)
        got = _CLEANUP_LINES[filename] = frozenset(lines)
    return got


def in_cleanup(frame) -> bool:
    return frame.f_lineno in cleanup_lines(frame.f_code.co_filename)


class LineSeam:
    """Counts line events inside sym_metanet while ``call`` runs; at event ``at`` (1-based)
    performs ``action(frame)``, which may raise into the library (interruption) or run
    another caller's operation inline (re-entrancy)."""

    def __init__(self, at: int = -1, action=None):
        self.at = at
        self.action = action
        self.count = 0
        self.fired = None  # (function name, line) where the action ran

    def _local(self, frame, event, arg):
        if event == "line":
            self.count += 1
            if self.action is not None and self.fired is None and self.count >= self.at > 0 and not in_cleanup(frame):
                self.fired = (os.path.basename(frame.f_code.co_filename), frame.f_code.co_name)
                sys.settrace(None)
                try:
                    self.action(frame)
                finally:
                    sys.settrace(self._global)
        return self._local

    def _global(self, frame, event, arg):
        if frame.f_code.co_filename.startswith(pkg_dir()):
            return self._local
        return None

    def run(self, call):
        old = sys.gettrace()
        sys.settrace(self._global)
        try:
            return call()
        finally:
            sys.settrace(old)


def count_line_events(call) -> int:
    s = LineSeam()
    s.run(call)
    return s.count


def interrupt_action(frame):
    raise core.SimInterrupt(f"injected in {frame.f_code.co_name}")
