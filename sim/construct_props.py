"""Tier sizes, evidence texts and entry points for the construction properties."""

from .construct import execute, generate, simplify_op  # noqa: F401

TIERS = {
    "C08": {
        "quick": {"runs": 60000, "selftest": 32, "chunk": 1000, "wall_cap": 900},
        "thorough": {"runs": 2000000, "selftest": 128, "chunk": 4000, "wall_cap": 3000,
                     "expect_probes": ["iter_raise", "reentrant_read", "path_malformed", "reads"]},
    },
    "C09": {
        "quick": {"runs": 60000, "selftest": 32, "chunk": 1000, "wall_cap": 900},
        "thorough": {"runs": 2000000, "selftest": 128, "chunk": 4000, "wall_cap": 3000,
                     "expect_probes": ["iter_raise", "reentrant_read", "path_malformed", "rejected_prefix_0",
                                       "rejected_prefix_1", "rejected_prefix_2"]},
    },
    "C06": {
        "quick": {"runs": 60000, "selftest": 32, "chunk": 1000, "wall_cap": 900},
        "thorough": {"runs": 2000000, "selftest": 128, "chunk": 4000, "wall_cap": 3000,
                     "expect_probes": ["valid_network_reached", "valid_to_invalid", "invalid_to_valid"]
                     + [f"sole_violation:{c}" for c in ("1", "2", "4", "5", "6", "7", "8", "9")]},
    },
}

_GEN = (
    "One run = one seeded session on one Network: a random valid target topology over a universe of 3-7 nodes, "
    "3-8 links, 2-4 origins, 2-3 destinations is cut into 1-4 builder plans, each realised through a random API "
    "route (add_node(s)/add_link(s)/add_path/add_origin/add_destination); a seeded scheduler interleaves the "
    "builders with a reader, a validator, a chaos builder (replacement, shared objects, self-loops, stray nodes, "
    "edges into/out of origin/destination nodes) and a malformed-path caller; bulk calls receive lazy iterators "
    "that may fail at item k (iter_raise) or run another caller's reads/validations between two partial "
    "mutations (reentrant); single calls with a None / unhashable downstream node fail half-way inside networkx; "
    "the validator may empty or extend the message list it was handed; in a quarter of the runs a second network "
    "over the same element objects receives part of the calls. "
)
RULES = {
    "C08": _GEN + "A run is non-trivial if at least one lookup was read after at least one mutation; distinct = "
    "distinct sequence of (call kind, fault kind, outcome).",
    "C09": _GEN + "A run is non-trivial if at least one mutating call was compared against the reference graph "
    "model; distinct = distinct sequence of (call kind, fault kind, outcome).",
    "C06": _GEN + "A run is non-trivial if is_valid was asked at least once after a mutation; distinct = distinct "
    "sequence of (call kind, fault kind, verdict/outcome).",
}
COMPONENTS = {
    "real": ["sym_metanet.Network and all element classes (working tree of /repo)", "networkx", "functools.cached_property"],
    "simulator_side": ["caller iterators (lazy arguments with fault directives)", "scheduler", "reference models"],
    "stubbed": [],
}
ASSUMPTIONS = {
    "C08": [
        "ground truth is net._graph read through networkx only (G._node/_succ/_pred, G.nodes, G.edges)",
        "where several graph elements map to one key (duplicate names, one object on two nodes/edges) any of them is accepted as value; key sets must be exact",
        "simulated callers are interleaved at call granularity plus re-entrancy inside caller-supplied iterables; no real threads (the library promises no thread safety)",
    ],
    "C09": [
        "an aborted or rejected bulk/path call may leave any prefix of its elementary effects applied; everything else must match the reference graph exactly",
        "only add_path receives ill-typed items (the statement's type clause is about paths)",
        "any exception type counts as 'rejected with an error'",
    ],
    "C06": [
        "the reference predicate is the nine conditions of the is_valid docstring evaluated on a plain-data snapshot of net._graph taken at the instant of the call (networkx adjacency only, none of the library's views or caches)",
        "graphs are those reachable through the construction API in these sessions; no exhaustive enumeration is attempted (that would be model checking)",
    ],
}
