"""C14 -- dynamics are invariant to construction order, names and turn-rate scaling.

From one target specification: the *canonical* build (one builder, fixed order, given names and
turn rates) and 2-4 *variants*, each produced by 1-4 builder tasks interleaved by the seeded
scheduler through random API routes, under a renaming and per-node positive scale factors on
the turn rates of the leaving links.  All are stepped with the same per-element values; next
states must agree (rtol 1e-9), and at every node with several leaving links the inflow of each
leaving link -- recomputed from the step's own inputs and outputs -- must be its turn-rate share
of the node's total inflow.
"""

from __future__ import annotations

import copy

import numpy as np

from . import core, dyn
from .c12 import make_engine
from .construct import interleave, plan_calls
from .core import Result, Violation

RTOL = 1e-9


def transformed_uspec(uspec: dict, var: dict) -> dict:
    u = copy.deepcopy(uspec)
    ren = var.get("rename") or {}
    for key, pref in (("nodes", "n"), ("links", "l"), ("origins", "o"), ("dests", "d")):
        for i, s in enumerate(u[key]):
            r = f"{pref}{i}"
            if r in ren:
                s["name"] = ren[r]
    for l, f in (var.get("scale") or {}).items():
        u["links"][int(l[1:])]["turnrate"] = u["links"][int(l[1:])]["turnrate"] * f
    return u


def step_numeric(uspec, ops, values, opts, zero_d, keep=None, res=None, order=None):
    def early(U, net):
        """A step in the middle of construction (the network may be incomplete or not yet
        valid: failures are the caller's problem, the final result must not depend on it)."""
        present = {U.label(el) for el in net.elements}
        try:
            step_numeric_on(U, net, {r: v for r, v in values.items() if r in present}, opts, zero_d)
            if res is not None:
                res.faults["step_during_construction"] += 1
        except Exception:
            if res is not None:
                res.probes["step_during_construction_raised"] += 1

    U, net = dyn.build(uspec, ops, on_early_step=early)
    if order is not None:  # the caller's dict of initial conditions in another insertion order
        keys = sorted(values)
        np.random.default_rng(order).shuffle(keys)
        values = {k: values[k] for k in keys}
    if keep is not None:
        keep.extend((U, net))
    return step_numeric_on(U, net, values, opts, zero_d)


def step_numeric_on(U, net, values, opts, zero_d):
    eng = make_engine("numpy")
    ic = dyn.numeric_init(U, values, zero_d)
    net.step(init_conditions=ic, engine=eng, **opts)
    out = {}
    for el, ns in net.next_states.items():
        out[U.label(el)] = {k: np.atleast_1d(np.asarray(v, dtype=float)).copy() for k, v in ns.items()}
    return out


def step_symbolic(uspec, ops, refs, values, opts, kind, engine_made=False, what=""):
    """Steps with caller symbols (or, `engine_made`, with the symbols the engine creates from
    the element names), then evaluates the symbolic next states at `values` through a function
    assembled here from those symbols (no dependence on to_function's layout)."""
    import casadi as cs

    U, net = dyn.build(uspec, ops)
    eng = make_engine(kind)
    ic = None if engine_made else dyn.symbolic_init(U, refs, kind.upper())
    net.step(init_conditions=ic, engine=eng, **opts)
    ins, args, seen = [], [], {}
    for r in sorted(values):
        el = U.obj(r)
        for var in sorted(values[r]):
            if engine_made:
                held = next(g[var] for g in (el.states, el.actions, el.disturbances) if g and var in g)
                prim = cs.symvar(held)
                sym = cs.vcat(prim) if kind == "sx" else prim[0]
                for x in prim:  # distinct elements must get distinct variables, whatever they are called
                    if x.__hash__() in seen:
                        raise Violation("C14/variables-aliased-by-name", f"{what}: {r}.{var} and {seen[x.__hash__()]} "
                                        f"are the same {kind.upper()} symbol ({x})")
                    seen[x.__hash__()] = f"{r}.{var}"
            else:
                sym = ic[el][var]
            ins.append(sym)
            args.append(np.array(values[r][var], dtype=float))
    outs, keys = [], []
    for el, ns in net.next_states.items():
        for k, v in ns.items():
            outs.append(v)
            keys.append((U.label(el), k))
    F = cs.Function("G", ins, outs)
    res = F(*args)
    if not isinstance(res, (list, tuple)):
        res = [res]
    out = {}
    for (r, k), v in zip(keys, res):
        out.setdefault(r, {})[k] = np.atleast_1d(np.array(v, dtype=float).ravel())
    return out


def compare(a: dict, b: dict, what: str):
    if a.keys() != b.keys():
        raise Violation("C14/elements-differ", f"{what}: elements with next states differ: {sorted(a)} vs {sorted(b)}")
    for r in sorted(a):
        if a[r].keys() != b[r].keys():
            raise Violation("C14/elements-differ", f"{what}: {r} has variables {sorted(a[r])} vs {sorted(b[r])}")
        for k in sorted(a[r]):
            x, y = a[r][k], b[r][k]
            if x.shape != y.shape:
                raise Violation("C14/next-state-differs", f"{what}: {r}.{k} shapes {x.shape} vs {y.shape}")
            if not (np.isnan(x) == np.isnan(y)).all():
                raise Violation("C14/next-state-differs", f"{what}: {r}.{k} NaN pattern differs")
            scale = max(1.0, float(np.nanmax(np.abs(x))) if x.size and not np.isnan(x).all() else 1.0)
            if not np.allclose(x, y, rtol=RTOL, atol=RTOL * scale, equal_nan=True):
                raise Violation("C14/next-state-differs", f"{what}: {r}.{k} = {y.tolist()} vs canonical {x.tolist()}")


def check_share(uspec, topo, values, opts, nxt, res: Result, what: str):
    """Turn-rate share clause from the step's own inputs (values) and outputs (nxt)."""
    if any(opts.get(f) for f in ("positive_init_speed", "positive_init_density", "positive_next_density")):
        return
    T = opts["T"]
    L = {l: uspec["links"][int(l[1:])] for _, l, _ in topo["links"]}
    leaving, entering = {}, {}
    for u, l, v in topo["links"]:
        leaving.setdefault(u, []).append(l)
        entering.setdefault(v, []).append(l)
    for n, outs in leaving.items():
        if len(outs) < 2:
            continue
        ins = entering.get(n, [])
        total = sum(values[e]["rho"][-1] * values[e]["v"][-1] * L[e]["lam"] for e in ins)
        sb = sum(L[l]["turnrate"] for l in outs)
        for l in outs:
            s = L[l]
            q0 = values[l]["rho"][0] * values[l]["v"][0] * s["lam"]
            inflow = (float(nxt[l]["rho"][0]) - values[l]["rho"][0]) * s["lam"] * s["L"] / T + q0
            expected = s["turnrate"] / sb * total
            # the inflow is recovered through a cancellation: tolerance relative to the magnitudes involved
            mag = 1.0 + abs(total) + abs(q0) + abs(values[l]["rho"][0]) * s["lam"] * s["L"] / T + abs(float(nxt[l]["rho"][0])) * s["lam"] * s["L"] / T
            if not abs(inflow - expected) <= 1e-9 * mag:
                raise Violation(
                    "C14/turnrate-share:" + ("one-entering" if len(ins) == 1 else "several-entering"),
                    f"{what}: node {n} ({len(ins)} entering, {len(outs)} leaving): link {l} receives {inflow:.6f} "
                    f"but its share {s['turnrate']}/{sb} of the inflow {total:.6f} is {expected:.6f}",
                )
        res.probes["share_checked:" + ("one-entering" if len(ins) == 1 else "several-entering")] += 1


def execute(trace: dict) -> Result:
    res = Result()
    core.pin_process(trace.get("run_seed", 0))
    uspec, cfg = trace["universe"], trace["cfg"]
    topo = cfg["topology"]
    refs = dyn.element_refs(topo)
    values = dyn.gen_values(cfg["vals"], uspec, refs, edge=cfg.get("edge", False))
    if cfg.get("empty_merge"):
        # an empty junction: no vehicles in the last segment of any link entering a merge node
        into = {}
        for u, l, v in topo["links"]:
            into.setdefault(v, []).append(l)
        for v, ls in into.items():
            if len(ls) >= 2:
                for l in ls:
                    values[l]["rho"][-1] = 0.0
    opts = cfg["opts"]
    zero_d = cfg["zero_d"]
    canon_ops = dyn.canonical_ops(topo)
    try:
        used = []  # the canonical network object, kept and re-used ("a network with a past")
        base = step_numeric(uspec, canon_ops, values, opts, zero_d, keep=used)
        res.log("canonical", core.H({r: {k: v.tobytes() for k, v in d.items()} for r, d in base.items()}))
        check_share(uspec, topo, values, opts, base, res, "canonical build")
        base_sym = {}
        for i, var in enumerate(trace["ops"]):
            what = f"variant#{i}"
            u2 = transformed_uspec(uspec, var)
            got = topo_norm(dyn.topo_of_ops(var["build"]))
            if got != topo_norm(topo):
                raise core.HarnessError(f"variant {i} does not build the target topology")
            out = step_numeric(u2, var["build"], values, opts, zero_d, res=res, order=var.get("ic_order"))
            for o in var["build"]:
                if o.get("counts"):
                    res.faults["failed_call_not_retried"] += 1
                elif o.get("fault") or o.get("malformed"):
                    res.faults["failed_call_then_retry"] += 1
            compare(base, out, what + " (numpy)")
            check_share(u2, topo, values, opts, out, res, what)
            res.probes["variant_compared:numpy"] += 1
            for kind in var.get("also", []):
                if kind not in base_sym:
                    base_sym[kind] = step_symbolic(uspec, canon_ops, refs, values, opts, kind)
                compare(base_sym[kind], step_symbolic(u2, var["build"], refs, values, opts, kind), what + f" ({kind})")
                res.probes[f"variant_compared:{kind}"] += 1
                if var.get("engine_made"):
                    compare(base_sym[kind], step_symbolic(u2, var["build"], refs, values, opts, kind, True, what),
                            what + f" ({kind}, engine-made symbols)")
                    res.probes[f"variant_compared:{kind}:engine-made-symbols"] += 1
            if var.get("inplace") and (var.get("rename") or var.get("scale")):
                # the same renaming / scaling applied *in place* to the already stepped canonical
                # network objects, which are then stepped again from the same values
                U0, net0 = used
                for r, name in (var.get("rename") or {}).items():
                    if r in U0.objs:
                        U0.objs[r].name = name
                for l in [x for _, x, _ in topo["links"]]:
                    U0.objs[l].turnrate = uspec["links"][int(l[1:])]["turnrate"] * (var.get("scale") or {}).get(l, 1.0)
                again = step_numeric_on(U0, net0, values, opts, zero_d)
                compare(base, again, what + " applied in place to the used canonical network (numpy)")
                res.faults["inplace_transform_after_step"] += 1
            if var.get("shared") and not var.get("rename") and not var.get("scale"):
                # the variant's construction calls made on a SECOND network over the canonical
                # network's own element objects (elements may belong to several networks); both
                # networks are then stepped alternately
                import sym_metanet as M

                U0, net0 = used
                net_b = M.Network(name="second")
                for o in var["build"]:
                    if o["op"] != "early_step" and not o.get("fault") and not o.get("malformed"):
                        dyn.apply_build_op(net_b, U0, o)
                    elif o.get("counts"):
                        try:
                            dyn.apply_build_op(net_b, U0, o)
                        except Exception:
                            pass
                        dyn.complete_missing(net_b, U0, o)
                compare(base, step_numeric_on(U0, net_b, values, opts, zero_d), what + " on a second network sharing the elements (numpy)")
                compare(base, step_numeric_on(U0, net0, values, opts, zero_d), what + ": canonical network re-stepped after the second one (numpy)")
                res.faults["elements_shared_by_two_networks"] += 1
            if var.get("copy"):
                # a deep copy / pickle round trip of the (used) canonical network contains the same
                # elements connected in the same way: stepped from the same values it must agree
                import copy
                import pickle

                U0, net0 = used
                mode = var["copy"] if not uspec.get("user_subclasses") else "deepcopy"  # local classes cannot be pickled
                try:
                    if mode == "deepcopy":
                        memo = {}
                        net_c = copy.deepcopy(net0, memo)
                        twin_of = lambda el: memo[id(el)]  # noqa: E731
                    else:
                        els0 = [U0.obj(r) for r in sorted(values)]
                        net_c, els_c = pickle.loads(pickle.dumps((net0, els0)))
                        m_ = {id(a): b for a, b in zip(els0, els_c)}
                        twin_of = lambda el: m_[id(el)]  # noqa: E731
                    twin_of(U0.obj(sorted(values)[0]))
                except Exception as e:
                    # whether networks can be copied / pickled at all is not promised by the property
                    res.probes["copy_not_possible:" + type(e).__name__] += 1
                    net_c = None
            if var.get("copy") and net_c is not None:
                ic = {twin_of(el): d for el, d in dyn.numeric_init(U0, values, zero_d).items()}
                net_c.step(init_conditions=ic, engine=make_engine("numpy"), **opts)
                got = {}
                for r in sorted(values):
                    ns = twin_of(U0.obj(r)).next_states
                    if ns is not None:
                        got[r] = {k: np.atleast_1d(np.asarray(v, dtype=float)).copy() for k, v in ns.items()}
                cur = step_numeric_on(U0, net0, values, opts, zero_d)  # the original, as it is now (possibly renamed / rescaled in place)
                compare(cur, got, what + f": {mode} of the used network (numpy)")
                res.faults["copied_network:" + mode] += 1
            if var.get("rename"):
                res.faults["rename:" + var["rename_mode"]] += 1
            if var.get("scale"):
                res.faults["turnrate_scale"] += 1
            res.faults["schedule_permutation"] += 1
            res.sig.append((var["n_builders"], tuple(o["op"] for o in var["build"]), var.get("rename_mode"), bool(var.get("scale"))))
            res.states.add(core.H(tuple(o["op"] for o in var["build"])))
            res.log(what, "ok", core.H({r: {k: v.tobytes() for k, v in d.items()} for r, d in out.items()}))
            res.nontrivial = True
        res.n_ops = sum(len(v["build"]) for v in trace["ops"])
    except Violation as v:
        res.violation = {"check": v.check, "detail": v.detail, "op_index": 0}
        res.log("VIOLATION", v.check)
    cls = topo_classes(topo)
    for c in cls:
        res.probes["topology:" + c] += 1
    return res


def topo_norm(t: dict):
    return (sorted(map(tuple, t["links"])), sorted(map(tuple, t["origins"])), sorted(map(tuple, t["dests"])))


def topo_classes(topo: dict) -> set:
    indeg, outdeg = {}, {}
    for u, l, v in topo["links"]:
        outdeg[u] = outdeg.get(u, 0) + 1
        indeg[v] = indeg.get(v, 0) + 1
    cls = set()
    onodes = {n for _, n in topo["origins"]}
    for n in set(indeg) | set(outdeg):
        i, o = indeg.get(n, 0), outdeg.get(n, 0)
        if i >= 2:
            cls.add("merge")
        if o >= 2:
            cls.add("bifurcation_1in" if i == 1 else "bifurcation_multi_in")
        if n in onodes and i >= 1:
            cls.add("interior_ramp")
    if not cls:
        cls.add("chain")
    return cls


# ---- generation ---------------------------------------------------------------------------


def gen_rename(rng, uspec: dict, refs_all: list):
    mode = rng.choice(["fresh", "dup", "permute", "long"])
    ren = {}
    if mode == "fresh":
        for r in refs_all:
            ren[r] = f"{r[0].upper()}x{rng.randrange(10**6)}_{r[1:]}"
    elif mode == "dup":
        for r in refs_all:
            ren[r] = {"n": "node", "l": "link", "o": "origin", "d": "dest"}[r[0]]
    elif mode == "permute":
        for k in "nlod":
            rs = [r for r in refs_all if r[0] == k]
            names = [f"{k.upper()}{r[1:]}" for r in rs]
            rng.shuffle(names)
            ren.update(dict(zip(rs, names)))
    else:
        for r in refs_all:
            ren[r] = "z" * rng.randint(1, 3) + "_" + r[::-1] + "_a"
    return mode, ren


def generate(prop: str, run_seed: int, tier: str = "quick") -> dict:
    rng = core.rng_of(run_seed)
    U = dyn.gen_dyn_universe(rng, ideal_origins=False, big=rng.random() < 0.5)
    if rng.random() < 0.15:
        U["param_arrays"] = rng.choice(["0d", "1d"])  # caller-owned NumPy arrays as parameters (NumPy runs only)
    best = None
    for _ in range(12):  # prefer topologies with bifurcations (the share clause lives there)
        topo = dyn.gen_dyn_topology(rng, U)
        c = topo_classes(topo)
        if best is None or ("bifurcation_1in" in c or "bifurcation_multi_in" in c):
            best = topo
            if "bifurcation_1in" in c or "bifurcation_multi_in" in c:
                break
    topo = best
    opts = dyn.gen_opts(rng)
    if rng.random() < 0.7:
        for f in ("positive_init_speed", "positive_init_density", "positive_next_density"):
            opts.pop(f, None)
    refs_all = [f"n{i}" for i in range(len(U["nodes"]))] + dyn.element_refs(topo)
    leaving = {}
    for u, l, v in topo["links"]:
        leaving.setdefault(u, []).append(l)
    variants = []
    for _ in range(rng.randint(2, 4) if tier == "quick" else rng.randint(3, 5)):
        nb = rng.randint(1, 4)
        build = interleave(rng, plan_calls(rng, topo, nb, set()))
        if rng.random() < 0.3 and topo["origins"]:  # harmless re-attachment of the same object
            o, n = rng.choice(topo["origins"])
            build.insert(rng.randint(0, len(build)), {"op": "add_origin", "o": o, "n": n})
            build.append({"op": "add_origin", "o": o, "n": n})
        if rng.random() < 0.35:
            # fault + retry: a bulk call fails half-way (failing iterator / malformed tail) and the
            # caller simply issues it again
            out = []
            for o in build:
                if o["op"] in ("add_path", "add_links", "add_nodes") and rng.random() < 0.5:
                    n = len(o.get("path") or o.get("items") or o.get("ns"))
                    if o["op"] == "add_path" and rng.random() < 0.4:
                        out.append(dict(o, path=o["path"] + ["x0"], malformed=True))
                    else:
                        out.append(dict(o, fault={"kind": "iter_raise", "at": rng.randint(0, n)}))
                out.append(o)
            build = out
        if rng.random() < 0.3:
            # a failed call that is NOT re-issued: add_path receives its complete well-formed path and
            # then fails (a trailing link / the iterator raising at the very end); the caller then
            # looks at the graph and adds with single calls only what is missing (on this tree:
            # nothing but the destination; nothing is assumed about what a failed call leaves)
            spare = [f"l{i}" for i in range(len(U["links"])) if f"l{i}" not in {l for _, l, _ in topo["links"]}]
            out = []
            for o in build:
                if o["op"] == "add_path" and not o.get("fault") and not o.get("malformed") and rng.random() < 0.6:
                    if spare and rng.random() < 0.5:
                        out.append(dict(o, path=o["path"] + [spare[0]], tail=spare[0], destination=None, malformed=True, counts=True))
                    else:
                        out.append(dict(o, destination=None, fault={"kind": "iter_raise", "at": len(o["path"])}, counts=True))
                    if o.get("destination") is not None:
                        out.append({"op": "add_destination", "d": o["destination"], "n": o["path"][-1]})
                else:
                    out.append(o)
            build = out
        if rng.random() < 0.35:
            for _ in range(rng.randint(1, 2)):  # steps while the network is still being built
                build.insert(rng.randint(1, len(build)), {"op": "early_step"})
        var = {"build": build, "n_builders": nb, "ic_order": rng.getrandbits(16) if rng.random() < 0.5 else None}
        if rng.random() < 0.6:
            var["rename_mode"], var["rename"] = gen_rename(rng, U, refs_all)
        if rng.random() < 0.6:
            sc = {}
            for n, ls in leaving.items():
                if rng.random() < 0.8:
                    f = rng.choice([0.25, 0.5, 2.0, 3.0, 10.0, 1e-3, 1e3, 1e-13, 1e-15, 1e13, round(rng.uniform(0.1, 9.0), 3)])
                    for l in ls:
                        sc[l] = f
            var["scale"] = sc
        also = []
        if not U.get("param_arrays") and rng.random() < (0.25 if tier == "quick" else 0.5):
            also.append(rng.choice(["sx", "mx"]))
        var["also"] = also
        var["engine_made"] = bool(also) and rng.random() < 0.6
        var["inplace"] = rng.random() < 0.5
        var["shared"] = rng.random() < 0.5
        if rng.random() < 0.2:
            var["copy"] = rng.choice(["deepcopy", "pickle"])
        variants.append(var)
    cfg = {"topology": topo, "vals": rng.getrandbits(32), "opts": opts, "edge": rng.random() < 0.08,
           "empty_merge": rng.random() < 0.06,
           "zero_d": True if (dyn.has_merging_ramp(topo, U) and "delta" in opts) else rng.random() < 0.3}
    return {"prop": prop, "run_seed": run_seed, "universe": U, "cfg": cfg, "ops": variants}


def simplify_op(var: dict):
    if var.get("rename"):
        v = dict(var); v.pop("rename"); v.pop("rename_mode", None); yield v
    if var.get("scale"):
        v = dict(var); v.pop("scale"); yield v
        if len(var["scale"]) > 1:
            for k in var["scale"]:
                v = dict(var); v["scale"] = {a: b for a, b in var["scale"].items() if a != k}; yield v
    if var.get("also"):
        yield dict(var, also=[])
    if var.get("inplace"):
        yield dict(var, inplace=False)
    if var.get("shared"):
        yield dict(var, shared=False)
    if var.get("copy"):
        v = dict(var); del v["copy"]; yield v
    if var.get("ic_order") is not None:
        yield dict(var, ic_order=None)
    b = var["build"]
    drop = lambda o: o["op"] == "early_step" or ((o.get("fault") or o.get("malformed")) and not o.get("counts"))  # noqa: E731
    if any(drop(o) for o in b):
        yield dict(var, build=[o for o in b if not drop(o)])
        for i, o in enumerate(b):
            if drop(o):
                yield dict(var, build=b[:i] + b[i + 1:])


def simplify_trace(trace: dict):
    cfg = trace["cfg"]
    for k in list(cfg["opts"]):
        if k not in ("tau", "eta", "kappa", "T"):
            c = dict(cfg); c["opts"] = {a: b for a, b in cfg["opts"].items() if a != k}
            yield dict(trace, cfg=c)
    # replace a variant's schedule by the canonical order (is the schedule needed at all?)
    canon = dyn.canonical_ops(cfg["topology"])
    for i, v in enumerate(trace["ops"]):
        if v["build"] != canon:
            ops = list(trace["ops"]); ops[i] = dict(v, build=canon, n_builders=1)
            yield dict(trace, ops=ops)


TIERS = {
    "C14": {
        "quick": {"runs": 12000, "selftest": 16, "chunk": 200, "wall_cap": 900, "run_timeout": 120},
        "thorough": {"runs": 300000, "selftest": 64, "chunk": 1000, "wall_cap": 3300, "run_timeout": 120,
                     "expect_probes": ["schedule_permutation", "turnrate_scale", "inplace_transform_after_step",
                                       "step_during_construction", "failed_call_then_retry", "failed_call_not_retried",
                                       "elements_shared_by_two_networks", "rename:fresh", "rename:dup", "rename:permute",
                                       "variant_compared:numpy", "variant_compared:sx", "variant_compared:mx",
                                       "share_checked:one-entering", "share_checked:several-entering", "topology:merge",
                                       "topology:bifurcation_1in", "topology:bifurcation_multi_in", "topology:interior_ramp"]},
    }
}
RULES = {
    "C14": "One run = one random valid target network (4-9 nodes; merges, bifurcations with one and with several entering "
    "links, interior ramps, rings) built canonically and as 2-5 variants: 1-4 builder tasks interleaved by the seeded "
    "scheduler, each through a random API route (node-first or implied nodes, add_link/add_links/add_path, origins and "
    "destinations before or after their links, repeated attachment of the same object; bulk calls that fail half-way through a failing iterator or a malformed tail and are issued again; steps taken while the network is still being built), under a renaming (fresh, all-equal, "
    "permuted, long names) and per-node positive scale factors (1e-3..1e3) on the turn rates of the leaving links; all "
    "stepped with the same per-element values under NumPy and, on a sample, SX/MX; on half of the variants the same renaming and scaling are also applied in place to the already stepped canonical network, which is stepped again. Non-trivial = at least one variant "
    "compared with the canonical build; distinct = distinct (number of builders, sequence of construction calls, renaming "
    "mode, scaled or not).",
}
COMPONENTS = {
    "real": ["sym_metanet construction API, Network.step, node/link/origin dynamics, NumPy and CasADi engines (working tree of /repo)",
             "networkx", "numpy", "casadi"],
    "simulator_side": ["builder tasks and scheduler", "canonical-build twin", "share recomputation from the step's inputs/outputs"],
    "stubbed": [],
}
ASSUMPTIONS = {
    "C14": [
        "next states are compared with rtol 1e-9 (floating-point sums over entering/leaving links are legitimately reordered)",
        "the share clause uses the definitions only: flow = rho*v*lanes, inflow of a link = (rho+[0]-rho[0])*lanes*L/T + flow[0]; nodes with several leaving links cannot carry an origin in a valid network",
        "of the four clauses only construction-order invariance is a schedule property; renaming, scaling and the share formula are decided by per-run configuration sampling (stated in DESIGN 3)",
    ]
}
