"""Deterministic simulation with fault injection for sym-metanet (see /verif/DESIGN.md)."""
