"""C19 -- a function is only produced for a fully initialised and stepped network.

Simulated callers on one network and one CasADi engine: a Builder that keeps extending /
replacing elements *after* steps, a Stepper using Network.step (possibly interrupted at a
seeded line event) and the per-element init/step methods in scheduler-chosen order, and a
Compiler.  Reference model: a readiness state machine per element (DESIGN 5, C19) driven by
what each operation did to the elements' variable dicts (dict identity = re-initialised,
next-state identity = stepped) plus the documented three-phase shape of Network.step.
"""

from __future__ import annotations

from . import core, dyn
from .c12 import make_engine
from .core import Result, Violation
from .refnet import RefNet, effects

GROUPS = ("states", "actions", "disturbances")


class Session:
    def __init__(self, trace: dict, res: Result):
        import sym_metanet as M

        self.M = M
        self.trace = trace
        self.res = res
        cfg = trace["cfg"]
        self.cfg = cfg
        self.uspec = trace["universe"]
        self.kind = cfg["kind"]
        self.build_ops = list(dyn.canonical_ops(cfg["topology"]))
        self.U, self.net = dyn.build(self.uspec, self.build_ops)
        self.engine = make_engine(self.kind)
        self.els = {r: o for r, o in self.U.objs.items() if r[0] in "lod"}
        # model: has the element been (re-)initialised since it was last stepped?
        self.inited_since = {r: False for r in self.els}
        self.stepped_once = set()
        self.ever_stepped = False
        self.keep = []  # keeps every observed object alive so that identities are never recycled
        self.obs = {r: self.observe(o) for r, o in self.els.items()}
        self.clean = None  # the op of the last complete Network.step, if nothing happened since
        self.caller_syms = None
        self.T_sym = None
        self.all_T_syms = []
        self.torn = False

    # -- observation of the variable dicts (S3) -------------------------------------------
    @staticmethod
    def observe(el):
        ns = el.next_states
        return (el.states, el.actions, el.disturbances, None if ns is None else tuple(ns.values()))

    def update_model(self, op_kind: str = "", outcome: str = ""):
        """Advances the readiness model from (i) what the operation did to S3 -- a variable
        dict that is a new object means the element was (re-)initialised, next-state objects
        that changed mean it was stepped -- and (ii) the documented shape of Network.step:
        it initialises *every* element before it steps *any*, so once one element has been
        stepped by it (or it completed) all elements were re-initialised by it, and when it
        completed all elements with states were stepped by it."""
        refs, _ = self.in_net()
        reinit, stepped = set(), set()
        for r, el in self.els.items():
            old = self.obs[r]
            new = self.observe(el)
            self.keep.append(old)
            if any(a is not b for a, b in zip(old[:3], new[:3])):
                reinit.add(r)
            o_ns, n_ns = old[3], new[3]
            if n_ns is not None and (o_ns is None or len(o_ns) != len(n_ns) or any(a is not b for a, b in zip(o_ns, n_ns))):
                stepped.add(r)
            self.obs[r] = new
        if op_kind == "step" and (outcome == "ok" or stepped):
            reinit |= set(refs)
        if op_kind == "step" and outcome == "ok":
            # Network.step advances origins and links; a destination with a state (caller-defined) is
            # initialised by it but stepped only by the caller -- or by observation, above
            stepped |= {r for r in refs if r[0] in "lo" and "states" in dyn.var_layout(self.U.spec_of(r))}
        for r in reinit:
            self.inited_since[r] = True
        for r in stepped:
            self.inited_since[r] = False
            self.stepped_once.add(r)
        if stepped:
            self.ever_stepped = True
        return len(stepped)

    def in_net(self):
        topo = dyn.topo_of_ops(self.build_ops)
        return dyn.element_refs(topo), topo

    def not_ready_reasons(self):
        refs, _ = self.in_net()
        out = []
        for r in refs:
            el = self.els[r]
            # which variable groups an element has is decided by its kind in the universe spec (which
            # constructor was called), never by the library's own class-level declarations
            decl = {g: g in dyn.var_layout(self.U.spec_of(r)) for g in GROUPS}
            for g in GROUPS:
                if decl[g] and getattr(el, g) is None:
                    out.append(("uninitialised", r))
            if decl["states"]:
                if self.inited_since[r] and r in self.stepped_once:
                    out.append(("reinitialised-after-step", r))
                elif el.next_states is None or self.inited_since[r]:
                    out.append(("unstepped", r))
        return out

    # -- operations ---------------------------------------------------------------------------
    def step_opts(self, op):
        import casadi as cs

        opts = dict(op["opts"])
        if op.get("symT"):
            self.T_sym = getattr(cs, self.kind.upper()).sym("T")
            self.all_T_syms.append(self.T_sym)
            opts["T"] = self.T_sym
        else:
            self.T_sym = None
        return opts

    def init_conditions(self, U, op, refs, owner):
        mode = op.get("sym", "auto")
        if mode == "auto":
            return None
        if mode == "same" and owner.caller_syms is not None:
            have = {U.label(el) for el in owner.caller_syms}
            if set(r for r in refs if dyn.var_layout(U.spec_of(r))) <= have:
                return owner.caller_syms
        ic = dyn.symbolic_init(U, refs, self.kind.upper())
        owner.caller_syms = ic
        return ic

    def do_step(self, op, i):
        refs, topo = self.in_net()
        where = f"op#{i} step"
        prev_caller = self.caller_syms
        ic = self.init_conditions(self.U, op, refs, self)
        new_symbols = not (op.get("sym") == "same" and ic is prev_caller and ic is not None)
        opts = self.step_opts(op)
        call = lambda: self.net.step(init_conditions=ic, engine=self.engine, **opts)  # noqa: E731
        fault = op.get("fault")
        outcome = "ok"
        try:
            if fault and fault["kind"] == "interrupt":
                total = self.line_budget(op)
                seam = dyn.LineSeam(1 + int(fault["frac"] * total), dyn.interrupt_action)
                try:
                    seam.run(call)
                except core.SimInterrupt:
                    outcome = "interrupted"
                    self.res.faults["interrupt"] += 1
                    phase = {"init_vars": "init", "elements": "init"}.get(seam.fired[1], seam.fired[1])
                    if seam.fired[1] == "init_vars":
                        self.torn = True  # an element's own initialisation was cut in the middle
                    self.res.probes["interrupt_in:" + phase] += 1
            else:
                call()
        except Exception as e:
            outcome = "raised:" + type(e).__name__
            self.res.probes["step_" + outcome] += 1
        n_stepped = self.update_model("step", outcome)
        if outcome == "interrupted":  # phase by observation, not by names of library functions
            self.res.probes["interrupt_phase:" + ("dynamics" if n_stepped else "initialisation")] += 1
        self.clean = op if outcome == "ok" else None
        if outcome == "ok":
            self.torn = False
        return outcome

    def line_budget(self, op) -> int:
        try:
            U2, net2 = dyn.build(self.uspec, self.build_ops)
            return max(1, dyn.count_line_events(lambda: net2.step(engine=make_engine(self.kind), **op["opts"])))
        except Exception:
            return 400

    def do_elem_init(self, op, i):
        el = self.els[op["el"]]
        if op.get("sym") == "same":
            ic = {}
            for g in GROUPS:
                ic.update(getattr(el, g) or {})
            new_symbols = not ic and bool(dyn.var_layout(self.U.spec_of(op["el"])))
            # positivity options wrap the symbol in fmax(0, .): pass the underlying symbols
            import casadi as cs

            ic = {k: (cs.vcat(cs.symvar(v)) if (hasattr(v, "is_valid_input") and not v.is_valid_input() and v.numel() > 0 and len(cs.symvar(v)) == v.numel()) else v) for k, v in ic.items()}
        else:
            ic, new_symbols = None, True
        try:
            el.init_vars(init_conditions=ic, engine=self.engine)
            outcome = "ok"
        except Exception as e:
            outcome = "raised:" + type(e).__name__
        self.update_model("elem_init", outcome)
        self.clean = None
        return outcome

    def do_elem_step(self, op, i):
        el = self.els[op["el"]]
        refs, _ = self.in_net()
        if op["el"] not in refs or el.states is None:
            return "skipped"
        try:
            el.step(net=self.net, engine=self.engine, **op["opts"])
            outcome = "ok"
        except Exception as e:
            outcome = "raised:" + type(e).__name__
            self.res.probes["elem_step_" + outcome] += 1
        if outcome == "ok":
            self.check_element_step(op, el, i)
        self.update_model("elem_step", outcome)
        self.clean = None
        self.T_sym = None
        return outcome

    def check_element_step(self, op, el, i):
        """'Reflects the most recent step' at element level: the next state an element has after
        its own step() is the one the same element of a never-used twin computes when that twin is
        initialised with the very same symbols -- whatever this element computed earlier (e.g. a
        second step with other parameters and no re-initialisation in between)."""
        import casadi as cs
        import numpy as np

        T = getattr(cs, self.kind.upper())
        cur = {}
        refs, _ = self.in_net()
        for r in refs:
            e2 = self.els[r]
            d = {}
            for g in GROUPS:
                for k, v in (getattr(e2, g) or {}).items():
                    if not isinstance(v, T):
                        return
                    d[k] = v
            if dyn.var_layout(self.U.spec_of(r)) and not d:
                return  # an uninitialised neighbour: nothing to compare against
            cur[r] = d
        U2, net2 = dyn.build(self.uspec, self.build_ops)
        try:
            eng2 = make_engine(self.kind)
            for r in refs:
                U2.obj(r).init_vars(init_conditions=cur.get(r) or None, engine=eng2)
            tw = U2.obj(op["el"])
            tw.step(net=net2, engine=eng2, **op["opts"])
        except Exception:
            return
        if el.next_states is None or tw.next_states is None or el.next_states.keys() != tw.next_states.keys():
            raise Violation("C19/element-step-not-most-recent", f"op#{i} {op['el']}.step: next states {el.next_states and sorted(el.next_states)} "
                            f"vs twin {tw.next_states and sorted(tw.next_states)}")
        exprs = [el.next_states[k] for k in sorted(el.next_states)] + [tw.next_states[k] for k in sorted(tw.next_states)]
        prim, seen = [], set()
        for x in exprs:
            for sy in cs.symvar(x):
                if sy.__hash__() not in seen:
                    seen.add(sy.__hash__())
                    prim.append(sy)
        G = cs.Function("G", prim, exprs)
        g = np.random.default_rng(core.H("elemstep", i) % (2**63))
        out = G(*[g.uniform(5.0, 120.0, size=(sy.numel(), 1)) for sy in prim])
        out = [np.array(o, dtype=float).tobytes() for o in (out if isinstance(out, (list, tuple)) else [out])]
        n = len(out) // 2
        if out[:n] != out[n:]:
            raise Violation("C19/element-step-not-most-recent",
                            f"op#{i} {op['el']}.step: the next state differs from the one the same element of a never-used twin, "
                            "initialised with the same symbols, computes with the same parameters")
        self.res.probes["element_step_twin_compared"] += 1

    def do_build(self, op, i):
        dyn.apply_build_op(self.net, self.U, op["build"])
        self.build_ops.append(op["build"])
        self.clean = None
        self.res.faults["add_after_step" if self.ever_stepped else "add_before_step"] += 1
        return "ok"

    def compile_kwargs(self, op, T_sym):
        kw = {"compact": op.get("compact", 0), "more_out": op.get("more_out", False)}
        if T_sym is not None:
            if op.get("give_params", True):
                kw["parameters"] = {"T": T_sym}
            elif op.get("T_by_keyword"):
                # the symbolic T of the step handed over like a number, not declared as a parameter:
                # whatever is returned must still have no free symbol (CasADi refuses on the pinned tree)
                kw["T"] = T_sym
            else:
                kw["more_out"] = False  # the flow outputs need T: omitting it there is a caller error
        else:
            kw["T"] = op["T"]
        return kw

    def do_compile(self, op, i):
        where = f"op#{i} compile"
        reasons = self.not_ready_reasons()
        p = self.res.probes
        try:
            F = self.engine.to_function(self.net, **self.compile_kwargs(op, self.T_sym))
        except RuntimeError as e:
            if reasons:
                p["compile_raised_expected:" + reasons[0][0]] += 1
                if reasons[0][1][0] == "d" and reasons[0][0] != "uninitialised":
                    p["compile_raised_expected:stateful-destination-not-stepped"] += 1
                self.res.nontrivial = True
                return "raised-expected"
            p["compile_raised_but_ready" + (":clean" if self.clean is not None else "")] += 1
            if self.T_sym is not None and "T" in self.compile_kwargs(op, self.T_sym):
                p["compile_refused:symbolic-T-by-keyword-undeclared"] += 1
            return "raised-ready"
        except Exception as e:
            if reasons and self.torn:
                # an element torn by an interrupt inside its init_vars is outside the
                # vocabulary of the statement: any error is an acceptable refusal
                p["compile_raised_expected:torn-element"] += 1
                return "raised-expected"
            if reasons:
                raise Violation(
                    "C19/not-ready-wrong-error:" + reasons[0][0],
                    f"{where}: network not ready ({reasons[0][0]} {reasons[0][1]}) but to_function raised "
                    f"{type(e).__name__}: {str(e)[:160]} instead of RuntimeError",
                )
            p["compile_raised_other_but_ready"] += 1
            return "raised-ready"
        if reasons:
            raise Violation(
                "C19/compiled-not-ready:" + reasons[0][0],
                f"{where}: to_function returned a function although {reasons[0][1]} is {reasons[0][0]} "
                f"(all reasons: {reasons[:4]})",
            )
        free = F.get_free()
        if free:
            raise Violation("C19/free-symbols", f"{where}: returned function has free symbols {free}")
        self.check_inputs(F, where)
        self.check_outputs(F, op, where)
        p["compile_returned"] += 1
        if any(self.U.spec_of(r)["cls"] == "CountingDestination" for r in self.in_net()[0]):
            p["compile_returned:with-caller-stepped-stateful-destination"] += 1
        self.res.nontrivial = True
        if op.get("recompile", True):
            # "reflects the most recent step": a second compiler -- a never-used engine object of the
            # same kind -- looking at the same network now must produce the same function
            try:
                F2 = make_engine(self.kind).to_function(self.net, **self.compile_kwargs(op, self.T_sym))
            except Exception as e:
                raise Violation("C19/not-most-recent-step", f"{where}: returned a function, but a never-used engine of the same "
                                f"kind refuses to compile the same network now ({type(e).__name__}: {str(e)[:120]})")
            if dyn.eval_function(F, core.H(op.get("pt", 0), "r")) != dyn.eval_function(F2, core.H(op.get("pt", 0), "r")):
                raise Violation("C19/not-most-recent-step", f"{where}: the returned function differs from the one a never-used "
                                "engine of the same kind compiles from the same network at the same moment")
            p["compile_returned_fresh_compiler_equal"] += 1
        if self.clean is not None:
            self.compare_with_twin(F, op, where)
        return "returned"

    def check_inputs(self, F, where):
        """'No free symbols' must not be achieved by turning leftovers into inputs: every
        symbolic primitive among the inputs of a returned function is a current variable of an
        element of the network or a parameter that was passed (CasADi introspection only)."""
        import casadi as cs

        refs, _ = self.in_net()
        known = set()
        for r in refs:
            el = self.els[r]
            for g in GROUPS:
                for v in (getattr(el, g) or {}).values():
                    if isinstance(v, (cs.SX, cs.MX)):
                        known.update(x.__hash__() for x in cs.symvar(v))
        for t in self.all_T_syms:  # symbolic parameters are not element variables: never flagged
            known.update(x.__hash__() for x in cs.symvar(t))
        ins = F.sx_in() if self.kind == "sx" else F.mx_in()
        for i, a in enumerate(ins):
            for x in cs.symvar(a):
                if x.__hash__() not in known:
                    raise Violation(
                        "C19/input-not-a-current-variable",
                        f"{where}: input #{i} '{F.name_in(i)}' of the returned function contains {x}, which is not a "
                        "variable currently held by any element of the network (a leftover of an earlier "
                        "initialisation was turned into an input)",
                    )

    def check_outputs(self, F, op, where):
        """A returned function carries the next state of every element that has states (counted
        in scalars, so that no layout is assumed); with more_out there are flow outputs on top."""
        refs, _ = self.in_net()
        need = 0
        for r in refs:
            el = self.els[r]
            if "states" in dyn.var_layout(self.U.spec_of(r)) and el.next_states is not None:
                need += sum(int(v.numel()) for v in el.next_states.values() if hasattr(v, "numel"))
        have = sum(F.numel_out(i) for i in range(F.n_out()))
        kw = self.compile_kwargs(op, self.T_sym)
        if (have != need) if not kw.get("more_out") else (have < need):
            raise Violation("C19/next-states-missing-from-function",
                            f"{where}: the returned function has {have} output scalars, the elements hold {need} next-state scalars")

    def compare_with_twin(self, F, op, where):
        sop = self.clean
        U2, net2 = dyn.build(self.uspec, self.build_ops)
        eng2 = make_engine(self.kind)
        refs, _ = self.in_net()

        class Owner:
            caller_syms = None

        ic2 = self.init_conditions(U2, dict(sop, sym="caller" if sop.get("sym") in ("caller", "same") else "auto"), refs, Owner)
        import casadi as cs

        opts = dict(sop["opts"])
        T2 = None
        if sop.get("symT"):
            T2 = getattr(cs, self.kind.upper()).sym("T")
            opts["T"] = T2
        net2.step(init_conditions=ic2, engine=eng2, **opts)
        F2 = eng2.to_function(net2, **self.compile_kwargs(op, T2))
        k1 = dyn.symbol_keys(self.U, self.net, {"T": self.T_sym} if self.T_sym is not None else None)
        k2 = dyn.symbol_keys(U2, net2, {"T": T2} if T2 is not None else None)
        for j in range(2):
            # per-variable evaluation, multiset of outputs: argument layout is not C19's subject
            if dyn.eval_function_keyed(F, k1, core.H(op.get("pt", 0), j)) != dyn.eval_function_keyed(F2, k2, core.H(op.get("pt", 0), j)):
                raise Violation(
                    "C19/not-most-recent-step",
                    f"{where}: the function compiled right after a complete step differs from the one of a twin that "
                    "experienced only that step",
                )
        self.res.probes["compile_returned_clean_twin_equal"] += 1

    def run(self):
        res = self.res
        ops = self.trace["ops"]
        res.n_ops = len(ops)
        for i, op in enumerate(ops):
            k = op["op"]
            fk = op["fault"]["kind"] if op.get("fault") else "-"
            try:
                if k == "step":
                    outcome = self.do_step(op, i)
                elif k == "elem_init":
                    outcome = self.do_elem_init(op, i)
                elif k == "elem_step":
                    outcome = self.do_elem_step(op, i)
                elif k == "build":
                    outcome = self.do_build(op, i)
                elif k == "compile":
                    outcome = self.do_compile(op, i)
                else:
                    raise core.HarnessError(f"unknown op {k}")
            except Violation as v:
                res.violation = {"check": v.check, "detail": v.detail, "op_index": i}
                res.log(i, k, fk, "VIOLATION", v.check)
                return
            res.sig.append((k, op.get("sym"), fk, outcome, op.get("build", {}).get("op")))
            st = self.model_state()
            res.log(i, k, fk, outcome, st)
            res.states.add(core.H(st))

    def model_state(self):
        refs, _ = self.in_net()
        out = []
        for r in sorted(refs):
            el = self.els[r]
            out.append((r[0], el.states is not None, el.actions is not None, el.disturbances is not None,
                        el.next_states is not None, self.inited_since[r]))
        return tuple(sorted(out))


def execute(trace: dict) -> Result:
    res = Result()
    core.pin_process(trace.get("run_seed", 0))
    Session(trace, res).run()
    return res


# ---- generation ---------------------------------------------------------------------------


def gen_extension(rng, U: dict, model: RefNet, used: set):
    """A construction op that keeps the network valid: new source branch, new ramp, replaced
    destination / origin / link."""
    def free(kind, key):
        return [f"{kind}{i}" for i in range(len(U[key])) if f"{kind}{i}" not in used]

    indeg = {n: 0 for n in model.nodes}
    outdeg = {n: 0 for n in model.nodes}
    for u, v in model.edges:
        outdeg[u] += 1
        indeg[v] += 1
    is_ramp = lambda o: U["origins"][int(o[1:])]["cls"] in ("MeteredOnRamp", "SimplifiedMeteredOnRamp")  # noqa: E731
    choices = ["ext_source", "ext_ramp", "replace_dest", "replace_origin", "replace_link"]
    rng.shuffle(choices)
    for c in choices:
        if c == "ext_source":
            fn, fl, fo = free("n", "nodes"), free("l", "links"), free("o", "origins")
            targets = [n for n, d in model.nodes.items() if "destination" not in d and ("origin" not in d or is_ramp(d["origin"]))
                       and outdeg[n] >= 1]
            if fn and fl and fo and targets:
                n, l, o = rng.choice(fn), rng.choice(fl), rng.choice(fo)
                used.update((n, l, o))
                return {"op": "add_path", "path": [n, l, rng.choice(targets)], "origin": o, "destination": None}
        if c == "ext_ramp":
            fo = [o for o in free("o", "origins") if is_ramp(o)]
            targets = [n for n, d in model.nodes.items() if not d and outdeg[n] == 1 and indeg[n] >= 1]
            if fo and targets:
                o = rng.choice(fo)
                used.add(o)
                return {"op": "add_origin", "o": o, "n": rng.choice(targets)}
        if c == "replace_dest":
            fd = free("d", "dests")
            targets = [n for n, d in model.nodes.items() if "destination" in d]
            if fd and targets:
                d = rng.choice(fd)
                used.add(d)
                return {"op": "add_destination", "d": d, "n": rng.choice(targets)}
        if c == "replace_origin":
            targets = [n for n, d in model.nodes.items() if "origin" in d]
            if targets:
                n = rng.choice(targets)
                fo = [o for o in free("o", "origins") if indeg[n] == 0 or is_ramp(o)]
                if fo:
                    o = rng.choice(fo)
                    used.add(o)
                    return {"op": "add_origin", "o": o, "n": n}
        if c == "replace_link":
            fl = free("l", "links")
            if fl and model.edges:
                u, v = rng.choice(sorted(model.edges))
                l = rng.choice(fl)
                used.add(l)
                return {"op": "add_link", "u": u, "l": l, "v": v}
    return None


def generate(prop: str, run_seed: int, tier: str = "quick") -> dict:
    rng = core.rng_of(run_seed)
    U = dyn.gen_dyn_universe(rng, ideal_origins=rng.random() < 0.25, big=True)
    U["origins"] += [dyn.gen_origin_spec(rng, f"O{len(U['origins']) + i}", dyn.STEPPABLE_ORIGIN_KINDS) for i in range(2)]
    U["dests"] += [dyn.gen_dest_spec(rng, f"D{len(U['dests']) + i}") for i in range(2)]
    if rng.random() < 0.15:
        # caller-defined destinations with a state of their own (Network.step never steps them)
        for sp in U["dests"]:
            if rng.random() < 0.6:
                sp["cls"] = "CountingDestination"
    if rng.random() < 0.3:
        # colliding names, within and across element kinds (names need not be unique)
        pool = ["A", "B", "C", "D"][: rng.randint(1, 4)]
        for key in ("links", "origins", "dests"):
            for sp in U[key]:
                if rng.random() < 0.7:
                    sp["name"] = rng.choice(pool)
    for _ in range(60):
        topo = dyn.gen_dyn_topology(rng, U)
        # keep the initial network steppable and leave spare elements for the builder
        if all(U["origins"][int(o[1:])]["cls"] != "Origin" for o, _ in topo["origins"]) and len(topo["links"]) <= len(U["links"]) - 2:
            break
    enabled = set()
    if rng.random() > 0.3:
        for f in ("interrupt", "build", "elem", "symT"):
            if rng.random() < 0.65:
                enabled.add(f)
    cfg = {"topology": topo, "enabled": sorted(enabled), "kind": rng.choice(["sx", "sx", "mx"])}
    model = RefNet()
    for op in dyn.canonical_ops(topo):
        for e in effects(op):
            model.apply_effect(e)
    used = set(dyn.element_refs(topo)) | set(model.nodes)
    ops = []
    T = round(rng.uniform(8, 12) / 3600, 8)

    def compile_op():
        return {"op": "compile", "compact": rng.choice([0, 1, 1, 2]), "more_out": rng.random() < 0.3, "T": T,
                "pt": rng.getrandbits(16), "give_params": rng.random() < 0.8, "T_by_keyword": rng.random() < 0.6, "recompile": rng.random() < 0.6}

    def step_op(allow_fault=True):
        op = {"op": "step", "sym": rng.choice(["auto", "caller", "same"]), "opts": dyn.gen_opts(rng)}
        if "symT" in enabled and rng.random() < 0.3:
            op["symT"] = True
        if allow_fault and "interrupt" in enabled and rng.random() < 0.35:
            op["fault"] = {"kind": "interrupt", "frac": round(rng.random(), 4)}
        return op

    n = rng.randint(4, 11) if tier == "quick" else rng.randint(6, 18)
    if rng.random() < 0.04:
        n = rng.randint(20, 32)  # swarm: now and then a long history
    if rng.random() < 0.3:
        ops.append(compile_op())  # never initialised
    for _ in range(n):
        r = rng.random()
        refs_now = [x for x in used if x[0] in "lo" or (x[0] == "d" and U["dests"][int(x[1:])]["cls"] == "CountingDestination")]
        if r < 0.3:
            ops.append(step_op())
        elif r < 0.55:
            ops.append(compile_op())
        elif r < 0.7 and "build" in enabled:
            b = gen_extension(rng, U, model, used)
            if b is not None:
                for e in effects(b):
                    model.apply_effect(e)
                ops.append({"op": "build", "build": b})
        elif r < 0.85 and "elem" in enabled:
            ops.append({"op": "elem_init", "el": rng.choice(sorted(refs_now)), "sym": rng.choice(["auto", "same"])})
        elif "elem" in enabled:
            ops.append({"op": "elem_step", "el": rng.choice(sorted(refs_now)), "opts": dyn.gen_opts(rng)})
        else:
            ops.append(step_op())
        if rng.random() < 0.45:
            ops.append(compile_op())
    # quiescent phase: one complete step, then compile (clean state: twin comparison)
    ops.append(step_op(allow_fault=False))
    ops.append(compile_op())
    counting = sorted(x for x in used if x[0] == "d" and U["dests"][int(x[1:])]["cls"] == "CountingDestination")
    if counting:
        # the caller completes the step itself for its own stateful destinations, then compiles
        last = ops[-2]
        last.pop("symT", None)
        for x in counting:
            ops.append({"op": "elem_step", "el": x, "opts": dict(last["opts"])})
        ops.append(compile_op())
    return {"prop": prop, "run_seed": run_seed, "universe": U, "cfg": cfg, "ops": ops}


def simplify_op(op: dict):
    if op.get("fault"):
        o = dict(op); del o["fault"]; yield o
    if op.get("symT"):
        o = dict(op); del o["symT"]; yield o
    if op["op"] in ("step", "elem_step"):
        opts = op["opts"]
        for k in list(opts):
            if k not in ("tau", "eta", "kappa", "T"):
                o = dict(op); o["opts"] = {a: b for a, b in opts.items() if a != k}; yield o
    if op["op"] == "compile":
        if op.get("more_out"):
            yield dict(op, more_out=False)
        if op.get("compact"):
            yield dict(op, compact=0)


TIERS = {
    "C19": {
        "quick": {"runs": 5000, "selftest": 12, "chunk": 100, "wall_cap": 900, "run_timeout": 120},
        "thorough": {"runs": 90000, "selftest": 48, "chunk": 400, "wall_cap": 3300, "run_timeout": 120,
                     "expect_probes": ["interrupt", "add_after_step", "compile_returned", "compile_returned_clean_twin_equal",
                                       "compile_returned_fresh_compiler_equal",
                                       "compile_returned:with-caller-stepped-stateful-destination",
                                       "compile_raised_expected:stateful-destination-not-stepped",
                                       "compile_refused:symbolic-T-by-keyword-undeclared",
                                       "compile_raised_expected:uninitialised", "compile_raised_expected:unstepped",
                                       "compile_raised_expected:reinitialised-after-step", "interrupt_phase:initialisation",
                                       "interrupt_phase:dynamics"]},
    }
}
RULES = {
    "C19": "One run = one seeded history on one network and one CasADi engine (SX or MX): Network.step with engine-made, "
    "caller-made or re-used symbols, optionally with a symbolic sampling time, optionally interrupted at a seeded line "
    "event (cut in the initialisation, origin or link phase); per-element init_vars (new or same symbols) and step in "
    "scheduler-chosen order; construction calls after steps (new source branch, new ramp, replaced destination, origin, "
    "link); caller-defined destinations with a state of their own (initialised by Network.step, stepped by the caller only); "
    "compiles at compactness 0-2 with/without more_out and parameters (a symbolic T declared as a parameter or merely handed over "
    "by keyword) after every kind of history. A readiness "
    "state machine per element decides whether to_function must raise RuntimeError; a returned function must have no free "
    "symbols and, right after a complete step, equal the function of a twin that experienced only that step. "
    "Non-trivial = at least one compile whose outcome was decided by the model; distinct = distinct sequence of "
    "(op, symbol mode, fault, outcome, construction call).",
}
COMPONENTS = {
    "real": ["sym_metanet CasADi engine to_function and its readiness scan, ElementWithVars, Network.step (working tree of /repo)",
             "casadi (its free-variable detection is part of the system under test)", "networkx"],
    "simulator_side": ["Builder / Stepper / Compiler actors and scheduler", "readiness state machine", "line-event seam (sys.settrace)", "fresh-twin oracle"],
    "stubbed": [],
}
ASSUMPTIONS = {
    "C19": [
        "'has states/actions/disturbances' means the class-level declarations _states/_actions/_disturbances",
        "the statement is read literally: an element (re-)initialised after it was last stepped -- with new or with the same symbols -- has not been stepped; Network.step initialises every element before it steps any",
        "'ready but raised' (e.g. a neighbour's symbols changed, or a symbolic T not passed as parameter) is counted, not flagged: it is C07's concern",
        "in mixed per-element histories only the free-symbol clause is required of a returned function; 'reflects the most recent step' is checked right after a complete Network.step",
    ]
}
