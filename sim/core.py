"""Core of the simulator: seeding, pinning of nondeterminism, event log, run result.

One run is a pure function of (trace, code under test).  A trace is plain JSON:
``{"prop": id, "universe": {...}, "cfg": {...}, "ops": [...]}``; it is *generated* from one
integer (``run_seed``) and *executed* without consulting any PRNG that is not derived from
values stored in the trace itself, so a stored trace replays exactly.
"""

from __future__ import annotations

import hashlib
import json
import os
import random
import sys
from collections import Counter

REPO_SRC = os.environ.get("SYM_METANET_SRC", "/repo/src")
if REPO_SRC not in sys.path:
    sys.path.insert(0, REPO_SRC)

GUARD = "SYM_METANET_VERIF"  # named in MANIFEST.hooks; no source hook needs it (see DESIGN 2)


def H(*parts) -> int:
    """64-bit hash of the parts (stable across processes and PYTHONHASHSEED)."""
    h = hashlib.sha256(repr(parts).encode()).digest()
    return int.from_bytes(h[:8], "big")


def run_seed_of(verif_seed: int, prop: str, run_index: int) -> int:
    return H("run", int(verif_seed), prop, int(run_index))


def rng_of(run_seed: int) -> random.Random:
    return random.Random(run_seed)


class SimIOError(Exception):
    """Raised by a simulated caller's iterator (the analogue of an I/O error on a reader)."""


class SimInterrupt(BaseException):
    """Raised *into* the library at a chosen line event (the analogue of KeyboardInterrupt)."""


class HarnessError(Exception):
    """Something went wrong in the simulator itself; never a property verdict."""


class Violation(Exception):
    """Raised by an oracle.  ``check`` is the stable id used for minimisation and for the
    known-findings file; ``detail`` is free text."""

    def __init__(self, check: str, detail: str):
        super().__init__(f"{check}: {detail}")
        self.check = check
        self.detail = detail


class Result:
    """What one executed trace produced."""

    __slots__ = ("violation", "events", "probes", "faults", "sig", "states", "nontrivial", "n_ops")

    def __init__(self):
        self.violation = None  # None | {"check":..., "detail":..., "op_index":...}
        self.events: list = []  # JSON-able, no addresses, no wall-clock
        self.probes: Counter = Counter()
        self.faults: Counter = Counter()
        self.sig: list = []  # (actor, call-kind, fault-kind) sequence
        self.states: set = set()  # distinct state signatures reached (ints)
        self.nontrivial = False
        self.n_ops = 0

    def log(self, *ev):
        self.events.append(ev)

    def digest(self) -> str:
        return hashlib.sha256(
            json.dumps(self.events, sort_keys=True, default=str).encode()
        ).hexdigest()

    def sig_hash(self) -> int:
        return H(tuple(self.sig))


def pin_process(run_seed: int) -> None:
    """Pins every source of nondeterminism the library can see (DESIGN 2, R1-R4)."""
    import numpy as np

    import sym_metanet
    from sym_metanet.blocks.base import ElementBase

    np.random.seed(H(run_seed, "np") % (2**32))
    ElementBase._ElementBase__ids.clear()  # S5: process-global auto-name counters
    # S2: a defined starting selection for every run (the package default)
    sym_metanet.engines.use("casadi")


def reset_autonames() -> None:
    from sym_metanet.blocks.base import ElementBase

    ElementBase._ElementBase__ids.clear()


def jdump(obj) -> str:
    return json.dumps(obj, sort_keys=True, separators=(",", ":"))
