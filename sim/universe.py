"""Universe: the fixed, small set of objects one run refers to, by stable string refs.

Refs: ``n3`` node, ``l1`` link, ``o0`` origin, ``d2`` destination, ``x1`` junk (a non-element
used only inside malformed paths).  A universe *spec* is plain JSON; ``Universe(spec)``
instantiates fresh library objects from it, so the same spec gives a "never used twin".
"""

from __future__ import annotations

import random

from . import core  # noqa: F401  (sys.path)

ORIGIN_KINDS = [
    ("Origin", None),
    ("MainstreamOrigin", None),
    ("MeteredOnRamp", "in"),
    ("MeteredOnRamp", "out"),
    ("SimplifiedMeteredOnRamp", "limited"),
    ("SimplifiedMeteredOnRamp", "unlimited"),
]
RAMP_CLASSES = ("MeteredOnRamp", "SimplifiedMeteredOnRamp")
DEST_KINDS = ["Destination", "CongestedDestination"]
JUNK = ["str", 7, None, 3.5, ("t",), "@unhashable"]


def gen_link_spec(rng: random.Random, i: int, name, max_seg=4, empty_vsl=True) -> dict:
    N = rng.choice([1, 1, 2, 2, 3, max_seg])
    if rng.random() < 0.01:
        N = rng.randint(64, 80)  # swarm: a very long link now and then
    spec = {
        "cls": "Link",
        "N": N,
        "lam": rng.choice([1, 2, 2, 3, 4]),
        "L": round(rng.uniform(0.4, 1.6), 3),
        "rho_max": round(rng.uniform(150.0, 200.0), 2),
        "rho_crit": round(rng.uniform(25.0, 40.0), 2),
        "v_free": round(rng.uniform(80.0, 125.0), 2),
        "a": round(rng.uniform(1.4, 2.4), 3),
        "turnrate": rng.choice([1, 1, 2, 3]) if rng.random() < 0.25 else round(rng.uniform(0.2, 3.0), 3),
        "name": name,
    }
    if rng.random() < 0.35:
        spec["cls"] = "LinkWithVsl"
        k = rng.choice([0, 1, 1, N]) if empty_vsl else rng.choice([1, 1, N])
        spec["vsl"] = sorted(rng.sample(range(N), min(k, N)))
        spec["alpha"] = round(rng.uniform(0.0, 0.3), 3)
    return spec


def gen_origin_spec(rng: random.Random, name, kinds=None, zero_cap=False) -> dict:
    cls, typ = rng.choice(kinds or ORIGIN_KINDS)
    spec = {"cls": cls, "name": name}
    if cls in RAMP_CLASSES:
        spec["C"] = round(rng.uniform(1500.0, 2500.0), 1)
        if zero_cap and rng.random() < 0.15:
            spec["C"] = rng.choice([0, 0.0])  # a closed ramp: capacity zero is a legal parameter value
        spec["type"] = typ
    return spec


def gen_dest_spec(rng: random.Random, name) -> dict:
    return {"cls": rng.choice(DEST_KINDS), "name": name}


def gen_names(rng: random.Random, prefix: str, n: int, mode: str) -> list:
    """mode: unique | dup (some share a name) | auto (name=None, library counters)."""
    if mode == "auto":
        return [None] * n
    names = [f"{prefix}{i}" for i in range(n)]
    if mode == "weird":  # legal names that upset string formatting / parsing
        pool = ["40%", "%d", "%s of %s", "{x}", "{}", "a b", "ramp 100%", "L+", "x_y_z", "", "Ünï"]
        names = [rng.choice(pool) + (str(i) if rng.random() < 0.5 else "") or f"{prefix}{i}" for i in range(n)]
    if mode == "dup" and n >= 2:
        for _ in range(rng.randint(1, max(1, n // 2))):
            a, b = rng.sample(range(n), 2)
            names[b] = names[a]
    return names


def gen_universe_spec(
    rng: random.Random,
    n_nodes=(3, 7),
    n_links=(3, 8),
    n_origins=(2, 4),
    n_dests=(2, 3),
    name_mode: str = "unique",
) -> dict:
    nn = rng.randint(*n_nodes)
    nl = rng.randint(*n_links)
    no = rng.randint(*n_origins)
    nd = rng.randint(*n_dests)
    nm = {k: name_mode for k in "nlod"}
    if name_mode == "mixed":
        nm = {k: rng.choice(["unique", "unique", "dup", "auto", "weird"]) for k in "nlod"}
    return {
        "user_subclasses": rng.choice([True, "falsy"]) if rng.random() < 0.15 else False,
        "nodes": [{"name": x} for x in gen_names(rng, "N", nn, nm["n"])],
        "links": [
            gen_link_spec(rng, i, x) for i, x in enumerate(gen_names(rng, "L", nl, nm["l"]))
        ],
        "origins": [gen_origin_spec(rng, x, zero_cap=True) for x in gen_names(rng, "O", no, nm["o"])],
        "dests": [gen_dest_spec(rng, x) for x in gen_names(rng, "D", nd, nm["d"])],
        "junk": list(JUNK),
    }


def counting_destination_class(base):
    """A caller-defined destination *with a state*: an ideal sink that integrates the time
    it has been open.  ``Network.step`` initialises it (it initialises every element) but
    steps only origins and links, so the caller has to step it itself before compiling."""

    def init_vars(self, init_conditions=None, engine=None, **_):
        if engine is None:
            from sym_metanet.engines.core import get_current_engine

            engine = get_current_engine()
        self.next_states = None
        self.states = {
            "n": engine.var(f"n_{self.name}") if init_conditions is None or "n" not in init_conditions else init_conditions["n"]
        }

    def step_dynamics(self, net=None, T=None, engine=None, **_):
        return {"n": self.states["n"] + T}

    return type("CountingDestination", (base,), {"_states": {"n"}, "init_vars": init_vars, "step_dynamics": step_dynamics})


class Universe:
    """Fresh library objects for a spec.  ``obj(ref)`` / ``label(obj)`` translate."""

    def __init__(self, spec: dict):
        import sym_metanet as M

        if spec.get("user_subclasses"):
            # elements may be instances of caller-defined (trivial) subclasses of the library's classes
            class _NS:
                pass

            ns = _NS()
            falsy = spec.get("user_subclasses") == "falsy"
            for cname in ("Node", "Link", "LinkWithVsl", "Origin", "MainstreamOrigin", "MeteredOnRamp",
                          "SimplifiedMeteredOnRamp", "Destination", "CongestedDestination"):
                body = {}
                if falsy and cname != "Node":
                    # e.g. an element that records samples and reports how many it holds: len() == 0
                    body = {"__len__": lambda self: 0}
                setattr(ns, cname, type("User" + cname, (getattr(M, cname),), body))
            M_ = ns
        else:
            M_ = M
        self.spec = spec
        self.objs: dict[str, object] = {}
        self._labels: dict[int, str] = {}
        for i, s in enumerate(spec["nodes"]):
            self._put(f"n{i}", M_.Node(name=s["name"]))
        arr = spec.get("param_arrays")  # caller-owned NumPy arrays as element parameters
        if arr:
            import numpy as np

            P = lambda x: np.array(float(x))  # noqa: E731
            TR = (lambda x: np.array([float(x)])) if arr == "1d" else P
        else:
            P = TR = lambda x: x  # noqa: E731
        for i, s in enumerate(spec["links"]):
            args = (s["N"], s["lam"], P(s["L"]), P(s["rho_max"]), P(s["rho_crit"]), P(s["v_free"]), P(s["a"]))
            s = dict(s, turnrate=TR(s["turnrate"]))
            if s["cls"] == "LinkWithVsl":
                o = M_.LinkWithVsl(
                    *args,
                    turnrate=s["turnrate"],
                    name=s["name"],
                    segments_with_vsl=set(s["vsl"]),
                    alpha=s["alpha"],
                )
            else:
                o = M_.Link(*args, turnrate=s["turnrate"], name=s["name"])
            self._put(f"l{i}", o)
        for i, s in enumerate(spec["origins"]):
            cls = getattr(M_, s["cls"])
            if s["cls"] in RAMP_CLASSES:
                o = cls(P(s["C"]), s["type"], name=s["name"])
            else:
                o = cls(name=s["name"])
            self._put(f"o{i}", o)
        for i, s in enumerate(spec["dests"]):
            if s["cls"] == "CountingDestination":
                self._put(f"d{i}", counting_destination_class(M_.Destination)(name=s["name"]))
            else:
                self._put(f"d{i}", getattr(M_, s["cls"])(name=s["name"]))
        self.junk = {}
        for i, s in enumerate(spec.get("junk", [])):
            v = tuple(s) if isinstance(s, list) else s
            if v == "@unhashable":
                v = ["unhashable"]
            self.junk[f"x{i}"] = v

    def _put(self, ref, o):
        self.objs[ref] = o
        self._labels[id(o)] = ref

    def obj(self, ref: str):
        if ref[0] == "x":
            return self.junk[ref]
        return self.objs[ref]

    def label(self, o) -> str:
        """Stable label of an object (never an address)."""
        r = self._labels.get(id(o))
        if r is not None and self.objs[r] is o:
            return r
        return f"?{type(o).__name__}:{o!r}"[:60]

    def refs(self, kind: str) -> list:
        return [r for r in self.objs if r[0] == kind]

    def spec_of(self, ref: str) -> dict:
        key = {"n": "nodes", "l": "links", "o": "origins", "d": "dests"}[ref[0]]
        return self.spec[key][int(ref[1:])]
