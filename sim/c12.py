"""C12 -- stepping is a pure, repeatable function of the supplied values.

One session = one valid network with a *past*: steps under NumPy / SX / MX with changing
values and options, compiles, per-element calls, a sibling network sharing the element
objects, engine re-selection, interrupts raised into the library at a seeded line event,
aliased caller arrays, garbage engine defaults.  Oracles (DESIGN 5, C12):
 (a) caller data (arrays, symbols, the dict and inner dicts, element parameters) are
     byte-identical before and after every call, interrupted or not;
 (b) every complete step gives next states bitwise equal to those of a never-used twin
     stepped once with copies of the same values;
 (c) after the last fault one complete probe step satisfies (b).
"""

from __future__ import annotations

import numpy as np

from . import core, dyn
from .core import Result, Violation

ENG_KINDS = ("numpy", "sx", "mx")


def make_engine(kind: str, garbage="empty"):
    from sym_metanet.engines.casadi import Engine as CE
    from sym_metanet.engines.numpy import Engine as NE

    if kind == "numpy":
        return NE(var_type=garbage if isinstance(garbage, str) else np.float64(garbage))
    return CE(sym_type=kind.upper())


class Session:
    def __init__(self, trace: dict, res: Result):
        import sym_metanet as M

        self.M = M
        self.trace = trace
        self.res = res
        cfg = trace["cfg"]
        self.cfg = cfg
        self.uspec = trace["universe"]
        self.build_ops = dyn.canonical_ops(cfg["topology"])
        self.U, self.net = dyn.build(self.uspec, self.build_ops)
        self.refs = dyn.element_refs(cfg["topology"])
        self.sibling = None
        if cfg.get("sibling"):
            sib = M.Network(name="sib")
            perm = cfg.get("sib_perm") or {}
            for op in reversed(self.build_ops):
                if op["op"] == "add_link" and op["l"] in perm:
                    op = dict(op, l=perm[op["l"]])  # same graph shape, link objects on other edges
                dyn.apply_build_op(sib, self.U, op)
            self.sibling = sib
        self.engines = {k: make_engine(k, cfg.get("garbage", "empty")) for k in ENG_KINDS}
        self.params0 = dyn.snap_params(self.U)
        self.last_sym = None  # (kind, opts) of the last complete symbolic step on self.net
        self.prev_numeric_ic = None
        self.numpy_results = {}
        M.engines.use(self.engines["sx"])  # a defined selection at the start of every session
        self.selected_kind = "sx"

    # -- helpers --------------------------------------------------------------------------
    def init_for(self, U, op, kind):
        if kind == "numpy":
            vals = dyn.gen_values(op["vals"], self.uspec, self.refs, op.get("neg", False), op.get("edge", False))
            ic = dyn.numeric_init(U, vals, op.get("zero_d", False), op.get("alias"), share=U is self.U,
                                  dtype=op.get("dtype"))
            if op.get("vctrl_scalar"):
                for el, d in ic.items():
                    if "v_ctrl" in d and isinstance(d["v_ctrl"], np.ndarray) and d["v_ctrl"].ndim == 1 and d["v_ctrl"].size > 1:
                        d["v_ctrl"] = np.array(d["v_ctrl"][0])
            if U is self.U and op.get("reuse_arrays") and self.prev_numeric_ic is not None:
                # the caller's simulation loop: the arrays supplied to the previous step are refreshed
                # IN PLACE with the new values and handed over again (same objects, new contents)
                old = self.prev_numeric_ic
                if old.keys() == ic.keys() and all(
                    old[e].keys() == ic[e].keys()
                    and all(isinstance(old[e][k], np.ndarray) and isinstance(ic[e][k], np.ndarray)
                            and old[e][k].shape == ic[e][k].shape and old[e][k].dtype == ic[e][k].dtype for k in ic[e])
                    for e in ic
                ):
                    for e in ic:
                        for k in ic[e]:
                            old[e][k][...] = ic[e][k]
                    ic = old
                    self.res.faults["arrays_refreshed_in_place"] += 1
            if op.get("ic_kind") == "defaultdict":
                import collections

                dd = collections.defaultdict(dict)
                dd.update(ic)
                ic = dd
            if U is self.U:
                self.prev_numeric_ic = ic if not op.get("alias") else None
            return ic
        if op.get("sym") == "caller":
            return dyn.symbolic_init(U, self.refs, kind.upper())
        return None

    def twin_step(self, op, kind):
        U2, net2 = dyn.build(self.uspec, self.build_ops)
        eng2 = make_engine(kind, "empty")
        ic2 = self.init_for(U2, op, kind)
        net2.step(init_conditions=ic2, engine=eng2, **dyn.step_kwargs(op["opts"]))
        return U2, net2, eng2

    def check_caller_data(self, before, ic, where):
        after = dyn.snap_init_conditions(ic)
        if before != after:
            raise Violation("C12/caller-data-modified", f"{where}: supplied init_conditions changed")
        if dyn.snap_params(self.U) != self.params0:
            raise Violation("C12/element-parameter-modified", f"{where}: an element parameter changed")

    def compare_with_twin(self, op, kind, where):
        try:
            U2, net2, eng2 = self.twin_step(op, kind)
        except Exception as e:
            raise Violation(
                f"C12/not-repeatable:{kind}",
                f"{where}: the step succeeded here but raised {type(e).__name__}: {str(e)[:200]} on a never-used twin",
            )
        if kind == "numpy":
            a = dyn.next_states_numeric(self.U, self.net)
            b = dyn.next_states_numeric(U2, net2)
            d = dyn.diff_numeric(a, b)
            if d:
                raise Violation("C12/not-repeatable:numpy", f"{where}: next states differ from a fresh twin: {d}")
        else:
            kw = {"compact": op.get("compact", 0), "more_out": op.get("more_out", False)}
            f2_err = None
            try:
                F2 = eng2.to_function(net2, T=op["opts"]["T"], **kw)
            except Exception as e:
                f2_err = e
            try:
                F1 = self.engines[kind].to_function(self.net, T=op["opts"]["T"], **kw)
            except Exception as e:
                if f2_err is not None and type(f2_err) is type(e):
                    self.res.probes["compile_raised_like_twin"] += 1
                    return
                raise Violation(
                    f"C12/not-repeatable:{kind}",
                    f"{where}: compiling after the step raised {type(e).__name__}: {str(e)[:200]} while a fresh twin compiles",
                )
            if f2_err is not None:
                raise Violation(
                    f"C12/not-repeatable:{kind}",
                    f"{where}: compiles here but a fresh twin raised {type(f2_err).__name__}: {str(f2_err)[:200]}",
                )
            k1, k2 = dyn.symbol_keys(self.U, self.net), dyn.symbol_keys(U2, net2)
            for j in range(2):
                # evaluated per variable, compared as multisets of outputs: the argument / result
                # layout of the compiled function is not C12's subject
                r1 = dyn.eval_function_keyed(F1, k1, core.H(op["vals"], j))
                r2 = dyn.eval_function_keyed(F2, k2, core.H(op["vals"], j))
                if r1 != r2:
                    raise Violation(f"C12/not-repeatable:{kind}", f"{where}: compiled function differs from a fresh twin's (values)")
        self.res.probes[f"twin_compared:{kind}"] += 1
        self.res.nontrivial = True

    # -- operations -------------------------------------------------------------------------
    def do_step(self, op, i, net=None):
        M = self.M
        kind = op["eng"] if op.get("via") != "default" else self.selected_kind
        target = net or self.net
        eng = self.engines[kind]
        where = f"op#{i} step[{kind}]"
        ic = self.init_for(self.U, op, kind)
        before = dyn.snap_init_conditions(ic)
        if op.get("via") == "default":
            # the engine selected by the last `use` operation of this session (the generator knows
            # which kind that is); nothing is re-selected here, so a library call that changed the
            # selection behind the caller's back shows
            call = lambda: target.step(init_conditions=ic, **dyn.step_kwargs(op["opts"]))  # noqa: E731
        else:
            call = lambda: target.step(init_conditions=ic, engine=eng, **dyn.step_kwargs(op["opts"]))  # noqa: E731
        fault = op.get("fault")
        interrupted = False
        try:
            if fault and fault["kind"] == "interrupt":
                total = self.line_budget(op, kind)
                at = 1 + int(fault["frac"] * total)
                seam = dyn.LineSeam(at, dyn.interrupt_action)
                try:
                    seam.run(call)
                except core.SimInterrupt:
                    interrupted = True
                    self.res.faults["interrupt"] += 1
                    self.res.probes[f"interrupt_in:{seam.fired[1]}"] += 1
            else:
                call()
        except Exception as e:
            # a step that fails on its own: history-dependent iff a never-used twin succeeds
            try:
                self.twin_step(op, kind)
            except Exception as e2:
                if type(e2) is type(e):
                    self.res.probes["step_raised_like_twin:" + type(e).__name__] += 1
                    self.last_sym = None
                    return "raised:" + type(e).__name__
            if target is not self.net:
                self.last_sym = None
                return "raised:" + type(e).__name__
            raise Violation(
                f"C12/not-repeatable:{kind}",
                f"{where}: raised {type(e).__name__}: {str(e)[:200]} while the same step on a fresh twin succeeds",
            )
        if op.get("alias"):
            self.res.faults["alias_arrays"] += 1
        self.check_caller_data(before, ic, where)
        if interrupted:
            self.last_sym = None if target is self.net else self.last_sym
            return "interrupted"
        if target is self.net:
            self.last_sym = (kind, op) if kind != "numpy" else None
            if kind == "numpy" or op.get("check", True):
                self.compare_with_twin(op, kind, where)
            if kind == "numpy":
                # "stepping again from the same values gives identical next states": a later step that
                # repeats an earlier call of this session (same values, same options, same topology) is
                # compared with what that earlier call produced -- no twin involved
                now = (len(self.build_ops), dyn.next_states_numeric(self.U, self.net))
                j = op.get("repeat_of")
                if j is not None and j in self.numpy_results and self.numpy_results[j][0] == now[0]:  # j: tag of the earlier call
                    d = dyn.diff_numeric(self.numpy_results[j][1], now[1])
                    if d:
                        raise Violation("C12/not-repeatable:same-call-twice",
                                        f"{where}: repeats an earlier call of this session (same values and options) but gives other next states: {d}")
                    self.res.probes["same_call_repeated_equal"] += 1
                if op.get("tag") is not None:
                    self.numpy_results[op["tag"]] = now
        return "ok"

    def line_budget(self, op, kind) -> int:
        """Number of line events the same call produces on a never-used twin (calibrates
        where 'frac' lands; replay recomputes it, so a trace stays self-contained)."""
        U2, net2 = dyn.build(self.uspec, self.build_ops)
        eng2 = make_engine(kind, "empty")
        ic2 = self.init_for(U2, op, kind)
        try:
            return max(1, dyn.count_line_events(lambda: net2.step(init_conditions=ic2, engine=eng2, **dyn.step_kwargs(op["opts"]))))
        except Exception:
            return 400  # the calibration twin failed: the real call is classified by the caller

    def do_compile(self, op, i):
        if self.last_sym is None:
            return "skipped"
        kind, sop = self.last_sym
        eng = self.engines[kind]
        where = f"op#{i} compile[{kind}]"
        ic_states = {el: dict(v) for el, v in self.net.states.items()}
        before = dyn.snap_init_conditions(ic_states)
        kw = {"compact": op.get("compact", 0), "more_out": op.get("more_out", False)}
        fault = op.get("fault")
        if fault and fault["kind"] == "interrupt":
            # compilation cut at a seeded line event: nothing the caller holds may have changed,
            # and the next complete step / compile must be exact again (checked by later ops)
            try:
                total = max(1, dyn.count_line_events(lambda: eng.to_function(self.net, T=sop["opts"]["T"], **kw)))
            except Exception:
                total = 200
            seam = dyn.LineSeam(1 + int(fault["frac"] * total), dyn.interrupt_action)
            try:
                seam.run(lambda: eng.to_function(self.net, T=sop["opts"]["T"], **kw))
            except core.SimInterrupt:
                self.res.faults["interrupt_compile"] += 1
            except Exception:
                pass
            after = dyn.snap_init_conditions({el: dict(v) for el, v in self.net.states.items()})
            if [x[2] for x in before[1]] != [x[2] for x in after[1]]:
                raise Violation("C12/caller-data-modified", f"{where}: element states changed by an interrupted compilation")
            if dyn.snap_params(self.U) != self.params0:
                raise Violation("C12/element-parameter-modified", f"{where}: an element parameter changed")
            return "interrupted"
        try:
            F = eng.to_function(self.net, T=sop["opts"]["T"], **kw)
        except Exception as e:
            try:
                U2, net2, eng2 = self.twin_step(sop, kind)
            except Exception as e2:
                raise Violation(
                    f"C12/not-repeatable:{kind}",
                    f"{where}: a step that succeeded here raised {type(e2).__name__}: {str(e2)[:200]} on a never-used twin",
                )
            try:
                eng2.to_function(net2, T=sop["opts"]["T"], **kw)
            except Exception:
                self.res.probes["compile_raised_like_twin"] += 1
                return "raised:" + type(e).__name__
            raise Violation(
                f"C12/not-repeatable:{kind}",
                f"{where}: raised {type(e).__name__}: {str(e)[:200]} while a fresh twin compiles",
            )
        after = dyn.snap_init_conditions({el: dict(v) for el, v in self.net.states.items()})
        # ids of the temporary dicts differ; compare contents only
        if [x[2] for x in before[1]] != [x[2] for x in after[1]]:
            raise Violation("C12/caller-data-modified", f"{where}: element states changed by compilation")
        if dyn.snap_params(self.U) != self.params0:
            raise Violation("C12/element-parameter-modified", f"{where}: an element parameter changed")
        dyn.eval_function(F, op.get("pt", 0))
        return "ok"

    def do_elem(self, op, i):
        """Per-element init/step of one element through its public methods (leaves the
        variable dicts in mixed epochs)."""
        kind = op["eng"]
        eng = self.engines[kind]
        el = self.U.obj(op["el"])
        vals = dyn.gen_values(op["vals"], self.uspec, [op["el"]]) if kind == "numpy" else {}
        ic = dyn.numeric_init(self.U, vals, False).get(el) if kind == "numpy" else None
        try:
            if op.get("reinit", True):
                el.init_vars(init_conditions=ic, engine=eng)
            if op.get("step") and el.states is not None:
                el.step(net=self.net, engine=eng, **dyn.step_kwargs(op["opts"]))
                if kind == "numpy":
                    self.check_element_step(op, el, eng, i)
        except Violation:
            raise
        except Exception as e:  # mixed engines among neighbours may legitimately fail
            self.last_sym = None
            return type(e).__name__
        self.last_sym = None
        return "ok"

    def check_element_step(self, op, el, eng, i):
        """Element-level repeatability: when every variable in the network is numeric, the next
        state an element computes through its own step() equals what the same element of a
        never-used twin computes after being initialised with copies of the current values --
        whatever was stepped on this element before (e.g. a second step without re-initialising)."""
        cur = {}
        for e2 in self.net.elements:
            d = {}
            for grp in ("states", "actions", "disturbances"):
                for k, v in (getattr(e2, grp) or {}).items():
                    if not isinstance(v, (np.ndarray, np.generic, float, int)):
                        return  # some neighbour holds symbols: nothing to compare against
                    d[k] = np.array(v, copy=True) if isinstance(v, np.ndarray) else v
            cur[self.U.label(e2)] = d
        U2, net2 = dyn.build(self.uspec, self.build_ops)
        eng2 = make_engine("numpy", "empty")
        try:
            for e2 in net2.elements:
                e2.init_vars(init_conditions=cur.get(U2.label(e2)) or None, engine=eng2)
            tw = U2.obj(op["el"])
            tw.step(net=net2, engine=eng2, **dyn.step_kwargs(op["opts"]))
        except Exception:
            return
        a = {k: dyn.numeric_bytes(v) for k, v in el.next_states.items()}
        b = {k: dyn.numeric_bytes(v) for k, v in tw.next_states.items()}
        if a != b:
            raise Violation("C12/not-repeatable:element-step",
                            f"op#{i} {op['el']}.step: next state differs from the same element step on a never-used twin "
                            "initialised with the current values")
        self.res.probes["element_step_twin_compared"] += 1

    def run(self):
        M = self.M
        res = self.res
        ops = self.trace["ops"]
        res.n_ops = len(ops)
        for i, op in enumerate(ops):
            k = op["op"]
            fk = "-"
            if op.get("fault"):
                fk = op["fault"]["kind"]
            elif op.get("alias"):
                fk = "alias"
            try:
                if k == "step":
                    outcome = self.do_step(op, i)
                elif k == "sibling_step":
                    if self.sibling is None:
                        outcome = "skipped"
                    else:
                        outcome = self.do_step(op, i, net=self.sibling)
                        self.res.faults["sibling_network"] += 1
                        self.last_sym = None
                elif k == "compile":
                    outcome = self.do_compile(op, i)
                elif k == "elem":
                    outcome = self.do_elem(op, i)
                elif k == "use":
                    M.engines.use(self.engines[op["eng"]])
                    self.selected_kind = op["eng"]
                    outcome = "ok"
                elif k == "build":
                    # the network is extended between steps; the twin of any later step is built
                    # from scratch with all construction calls made so far
                    dyn.apply_build_op(self.net, self.U, op["build"])
                    self.build_ops.append(op["build"])
                    self.refs = dyn.element_refs(dyn.topo_of_ops(self.build_ops))
                    self.last_sym = None
                    self.res.faults["add_after_step"] += 1
                    outcome = "ok"
                else:
                    raise core.HarnessError(f"unknown op {k}")
            except Violation as v:
                res.violation = {"check": v.check, "detail": v.detail, "op_index": i}
                res.log(i, k, fk, "VIOLATION", v.check)
                return
            res.sig.append((k, op.get("eng"), op.get("via"), fk, outcome))
            res.log(i, k, op.get("eng"), fk, outcome, self.state_digest())
            res.states.add(core.H(tuple(res.sig[-3:])))

    def state_digest(self):
        out = []
        for el in self.net.elements:
            for grp in ("states", "next_states", "actions", "disturbances"):
                d = getattr(el, grp)
                if d is None:
                    out.append(None)
                else:
                    out.append(tuple((k, type(v).__name__, dyn.numeric_bytes(v)[1].hex() if isinstance(v, (np.ndarray, np.generic, float)) else str(v.shape)) for k, v in d.items()))
        return core.H(tuple(out))


def execute(trace: dict) -> Result:
    res = Result()
    core.pin_process(trace.get("run_seed", 0))
    Session(trace, res).run()
    return res


# ---- generation ---------------------------------------------------------------------------


def gen_step(rng, cfg, kind=None, allow_fault=True, tier="quick"):
    kind = kind or rng.choices(ENG_KINDS, weights=[6, 2, 1])[0]
    if cfg.get("numpy_only"):
        kind = "numpy"
    merging = cfg["merging_ramp"]
    op = {"op": "step", "eng": kind, "via": rng.choice(["explicit", "explicit", "default"]),
          "vals": rng.getrandbits(32), "opts": dyn.gen_opts(rng)}
    if kind == "numpy":
        if rng.random() < (0.5 if any(k.startswith("positive_init") for k in op["opts"]) else 0.05):
            op["neg"] = True
        op["zero_d"] = True if (merging and "delta" in op["opts"]) else rng.random() < 0.3
        if rng.random() < 0.1:
            op["edge"] = True
        if rng.random() < 0.12:
            op["dtype"] = "float32"
        if rng.random() < 0.2:
            op["reuse_arrays"] = True
        if rng.random() < 0.15:
            op["vctrl_scalar"] = True  # one shared speed limit for all the VSL signs of a link
        if rng.random() < 0.1:
            op["ic_kind"] = "defaultdict"
        if op["zero_d"] is True and rng.random() < 0.25:
            op["zero_d"] = "pyfloat"
        if "alias" in cfg["enabled"] and rng.random() < 0.3:
            links = [r for r in cfg["refs"] if r[0] == "l"]
            r1 = rng.choice(links)
            same = [r for r in links if r != r1 and cfg["sizes"][r] == cfg["sizes"][r1]]
            pairs = [[[r1, "rho"], [r1, "v"]]]
            if same:
                r2 = rng.choice(same)
                pairs.append([[r1, rng.choice(["rho", "v"])], [r2, rng.choice(["rho", "v"])]])
            op["alias"] = [rng.choice(pairs)]
    else:
        op["sym"] = rng.choice(["auto", "caller"])
        op["check"] = rng.random() < (0.6 if tier == "quick" else 0.9)
        op["compact"] = rng.choice([0, 1, 2])
        op["more_out"] = rng.random() < 0.3
    if allow_fault and "interrupt" in cfg["enabled"] and rng.random() < 0.3:
        op["fault"] = {"kind": "interrupt", "frac": round(rng.random(), 4)}
    return op


def generate(prop: str, run_seed: int, tier: str = "quick") -> dict:
    rng = core.rng_of(run_seed)
    U = dyn.gen_dyn_universe(rng, ideal_origins=False, name_mode=rng.choice(["unique", "unique", "dup"]), big=rng.random() < 0.5)
    U["origins"] += [dyn.gen_origin_spec(rng, f"O{len(U['origins']) + i}", dyn.STEPPABLE_ORIGIN_KINDS) for i in range(2)]
    U["dests"] += [dyn.gen_dest_spec(rng, f"D{len(U['dests']) + i}") for i in range(1)]
    topo = dyn.gen_dyn_topology(rng, U)
    if rng.random() < 0.25:
        # element parameters are caller-owned NumPy arrays (NumPy engine only in such runs)
        U["param_arrays"] = rng.choice(["0d", "1d"])
    enabled = set()
    if rng.random() > 0.34:
        for f in ("interrupt", "alias", "sibling", "elem", "garbage", "build"):
            if rng.random() < 0.6:
                enabled.add(f)
    if "build" in enabled:
        enabled.discard("sibling")  # the sibling shares the initial topology only
    refs = dyn.element_refs(topo)
    from .c19 import gen_extension
    from .refnet import RefNet, effects

    model = RefNet()
    for o in dyn.canonical_ops(topo):
        for e in effects(o):
            model.apply_effect(e)
    used = set(refs) | set(model.nodes)
    cfg = {
        "topology": topo, "enabled": sorted(enabled), "refs": refs,
        "sizes": {r: U["links"][int(r[1:])]["N"] for r in refs if r[0] == "l"},
        "merging_ramp": dyn.has_merging_ramp(topo, U) or "build" in enabled,
        "sibling": "sibling" in enabled,
        "garbage": rng.choice(["empty", "rand", "randn", 7.5]) if "garbage" in enabled else "empty",
        "numpy_only": bool(U.get("param_arrays")),
    }
    if cfg["sibling"] and rng.random() < 0.5:
        ls = [l for _, l, _ in topo["links"]]
        sh = list(ls)
        rng.shuffle(sh)
        cfg["sib_perm"] = dict(zip(ls, sh))
    ops = []
    n = rng.randint(3, 9) if tier == "quick" else rng.randint(4, 14)
    if rng.random() < 0.04:
        n = rng.randint(20, 32)  # swarm: now and then a long history
    for _ in range(n):
        r = rng.random()
        if r < 0.62:
            ops.append(gen_step(rng, cfg, tier=tier))
        elif r < 0.72:
            c = {"op": "compile", "compact": rng.choice([0, 1, 2]), "more_out": rng.random() < 0.5, "pt": rng.getrandbits(16)}
            if "interrupt" in enabled and rng.random() < 0.3:
                c["fault"] = {"kind": "interrupt", "frac": round(rng.random(), 4)}
            ops.append(c)
        elif r < 0.76:
            ops.append({"op": "use", "eng": "numpy" if cfg["numpy_only"] else rng.choice(ENG_KINDS)})
        elif r < 0.82 and "build" in enabled:
            b = gen_extension(rng, U, model, used)
            if b is not None:
                for e in effects(b):
                    model.apply_effect(e)
                ops.append({"op": "build", "build": b})
        elif r < 0.90 and "elem" in enabled:
            ops.append({"op": "elem", "el": rng.choice([x for x in refs if x[0] in "lo"]),
                        "eng": "numpy" if cfg["numpy_only"] else rng.choice(ENG_KINDS),
                        "vals": rng.getrandbits(32), "step": rng.random() < 0.7, "reinit": rng.random() < 0.6,
                        "opts": dyn.gen_opts(rng, allow_delta=False)})
        elif "sibling" in enabled:
            s = gen_step(rng, cfg, allow_fault=False, tier=tier)
            s["op"] = "sibling_step"
            s.pop("alias", None)
            ops.append(s)
        else:
            ops.append(gen_step(rng, cfg, tier=tier))
    # quiescent phase: one complete probe step without faults (recovery)
    ops.append(gen_step(rng, cfg, kind="numpy", allow_fault=False, tier=tier))
    if rng.random() < 0.35 and not cfg["numpy_only"]:
        p = gen_step(rng, cfg, kind=rng.choice(["sx", "mx"]), allow_fault=False, tier=tier)
        p["check"] = True
        ops.append(p)
    # default-route steps use the engine selected by the last `use` of the session
    sel = "numpy" if cfg["numpy_only"] else "sx"
    if cfg["numpy_only"]:
        ops.insert(0, {"op": "use", "eng": "numpy"})
    for j, o in enumerate(ops):
        if o["op"] == "use":
            sel = o["eng"]
        elif o["op"] == "step" and o.get("via") == "default" and o["eng"] != sel:
            keep = {k: o[k] for k in ("fault",) if k in o}
            ops[j] = dict(gen_step(rng, cfg, kind=sel, allow_fault=False, tier=tier), via="default", **keep)
    # one later step repeats an earlier explicit NumPy call of the session verbatim (fresh arrays); the
    # two are linked by a tag, not by position, so that minimisation cannot mis-pair them
    idx = [j for j, o in enumerate(ops) if o["op"] == "step" and o["eng"] == "numpy" and o.get("via") == "explicit"
           and not o.get("fault") and not o.get("alias") and not o.get("reuse_arrays")]
    if idx and rng.random() < 0.5:
        j = rng.choice(idx)
        ops[j]["tag"] = 1
        rep = {k: v for k, v in ops[j].items() if k in ("op", "eng", "vals", "opts", "zero_d", "neg", "edge", "dtype", "vctrl_scalar", "ic_kind")}
        rep["via"] = "explicit"
        rep["repeat_of"] = 1
        if rng.random() < 0.4:
            ops[j]["neg"] = rep["neg"] = True
        ops.insert(rng.randint(j + 1, len(ops)), rep)
    return {"prop": prop, "run_seed": run_seed, "universe": U, "cfg": cfg, "ops": ops}


def simplify_op(op: dict):
    if op.get("fault"):
        o = dict(op); del o["fault"]; yield o
    if op.get("alias"):
        o = dict(op); del o["alias"]; yield o
    if op.get("neg"):
        o = dict(op); del o["neg"]; yield o
    if op.get("edge"):
        o = dict(op); del o["edge"]; yield o
    if op.get("dtype"):
        o = dict(op); del o["dtype"]; yield o
    if op.get("reuse_arrays"):
        o = dict(op); del o["reuse_arrays"]; yield o
    if op.get("vctrl_scalar"):
        o = dict(op); del o["vctrl_scalar"]; yield o
    if op.get("ic_kind"):
        o = dict(op); del o["ic_kind"]; yield o
    if op.get("zero_d") == "pyfloat":
        yield dict(op, zero_d=True)
    if op["op"] == "step":
        opts = op["opts"]
        for k in list(opts):
            if k not in ("tau", "eta", "kappa", "T"):
                o = dict(op); o["opts"] = {a: b for a, b in opts.items() if a != k}; yield o
        if op.get("via") == "default":
            yield dict(op, via="explicit")
        if op.get("more_out"):
            yield dict(op, more_out=False)
        if op.get("compact"):
            yield dict(op, compact=0)


def simplify_trace(trace: dict):
    cfg = trace["cfg"]
    if trace["universe"].get("param_arrays"):
        u = dict(trace["universe"]); del u["param_arrays"]
        yield dict(trace, universe=u)
    if cfg.get("sibling"):
        yield dict(trace, cfg=dict(cfg, sibling=False))
    if cfg.get("sib_perm"):
        yield dict(trace, cfg=dict(cfg, sib_perm=None))
    if cfg.get("garbage") != "empty":
        yield dict(trace, cfg=dict(cfg, garbage="empty"))


TIERS = {
    "C12": {
        "quick": {"runs": 6000, "selftest": 12, "chunk": 100, "wall_cap": 900, "run_timeout": 120},
        "thorough": {"runs": 150000, "selftest": 48, "chunk": 400, "wall_cap": 3300, "run_timeout": 120,
                     "expect_probes": ["interrupt", "alias_arrays", "sibling_network", "add_after_step", "same_call_repeated_equal", "twin_compared:numpy",
                                       "twin_compared:sx", "twin_compared:mx"]},
    }
}
RULES = {
    "C12": "One run = one seeded history on one valid random network (4-8 nodes, merges, bifurcations, ramps, rings, "
    "1-4 segments, all steppable origin kinds, both destination kinds): 4-15 operations among NumPy/SX/MX steps via the "
    "explicit or the selected engine with fresh value sets and option mixes, compiles at compactness 0-2, per-element "
    "init/step, steps of a sibling network sharing the element objects, engine re-selection, construction calls that extend the network between steps (new source branch, new ramp, replaced destination / origin / link); faults: interrupt raised into "
    "the library at a seeded line event, aliased caller arrays, garbage engine defaults. Every complete step is compared "
    "bitwise with a never-used twin; caller data are byte-compared around every call. Non-trivial = at least one twin "
    "comparison after at least one earlier operation; distinct = distinct sequence of (op, engine, route, fault, outcome).",
}
COMPONENTS = {
    "real": ["sym_metanet (Network, elements, NumPy and CasADi engines; working tree of /repo)", "networkx", "numpy", "casadi"],
    "simulator_side": ["scheduler / operation generator", "line-event seam (sys.settrace)", "fresh-twin oracle"],
    "stubbed": [],
}
ASSUMPTIONS = {
    "C12": [
        "all variable values are supplied by the caller (the statement is about 'the supplied values'); engine defaults are garbage on purpose",
        "the twin runs the same library code on never-used objects: an error that is identical with and without a past is invisible (C01's territory)",
        "networks contain no ideal Origin: Network.step raises AssertionError for it on the pinned tree (outside the claimed set, DESIGN 7)",
        "NumPy steps with delta on networks with a merging ramp use 0-d origin values (shape-(1,) values crash there: DESIGN 7, F6)",
    ]
}
