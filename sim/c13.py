"""C13 -- the selected engine is the default; an explicit engine is always honoured.

Two simulated callers share the module-global ``sym_metanet.engine`` (S2): a *Selector*
(``engines.use`` by name / instance / spy / unknown name, ``get_current_engine``) and a
*Stepper/Compiler* working on one valid network that contains every element kind.  While an
explicit-engine call of the Stepper is in flight the Selector may act at a seeded line event
inside the library (fault ``switch_engine``).  Oracles: DESIGN 5, C13.
"""

from __future__ import annotations

from collections import Counter

import numpy as np

from . import core, dyn
from .c12 import ENG_KINDS, make_engine
from .core import Result, Violation


def make_spy(inner):
    from sym_metanet.engines.core import EngineBase

    class Spy(EngineBase):
        """Delegates every member to a real engine and counts the accesses."""

        def __init__(self, inner):
            self.inner = inner
            self.hits = Counter()

        @property
        def nodes(self):
            self.hits["nodes"] += 1
            return self.inner.nodes

        @property
        def links(self):
            self.hits["links"] += 1
            return self.inner.links

        @property
        def origins(self):
            self.hits["origins"] += 1
            return self.inner.origins

        @property
        def destinations(self):
            self.hits["destinations"] += 1
            return self.inner.destinations

        def var(self, *a, **k):
            self.hits["var"] += 1
            return self.inner.var(*a, **k)

        def vcat(self, *a):
            self.hits["vcat"] += 1
            return self.inner.vcat(*a)

        def max(self, a, b):
            self.hits["max"] += 1
            return self.inner.max(a, b)

        def to_function(self, *a, **k):
            self.hits["to_function"] += 1
            return self.inner.to_function(*a, **k)

    return Spy(inner)


def kind_of(engine) -> str:
    """numpy | sx | mx of a real engine or a spy."""
    import casadi as cs

    e = getattr(engine, "inner", engine)
    st = getattr(e, "sym_type", None)
    if st is None:
        return "numpy"
    return "mx" if st is cs.MX else "sx"


# names that no reasonable reading makes "known" (no case variants, no class names, no None)
BAD = {"bad:foo": "foo", "bad:jax": "jax", "bad:sympy": "sympy", "bad:empty": "", "bad:tuple": ("numpy",), "bad:int": 3,
       "bad:np": "np", "bad:typo1": "nunpy", "bad:typo2": "cassadi", "bad:core": "core", "bad:init": "__init__"}
KNOWN = {"numpy": ("sym_metanet.engines.numpy", "Engine"), "casadi": ("sym_metanet.engines.casadi", "Engine")}


def make_engine_x():
    """A caller-defined engine: the NumPy engine with a *distinguishable* link-flow law (any
    EngineBase subclass is a legitimate explicit engine).  Used to tell 'computed with the
    engine that was passed' from 'computed earlier with another engine and kept'."""
    from sym_metanet.engines.numpy import Engine as NE
    from sym_metanet.engines.numpy import LinksEngine

    class LinksX(LinksEngine):
        @staticmethod
        def get_flow(rho, v, lanes):
            return rho * v * lanes * (1.0 + 2.0**-20)

    class EngineX(NE):
        @property
        def links(self):
            return LinksX

        def __len__(self):  # e.g. a bookkeeping engine reporting how many calls it has logged: falsy
            return 0

    return EngineX()


class Session:
    def __init__(self, trace: dict, res: Result):
        import sym_metanet as M

        self.M = M
        self.trace = trace
        self.res = res
        cfg = trace["cfg"]
        self.cfg = cfg
        self.uspec = trace["universe"]
        self.build_ops = dyn.canonical_ops(cfg["topology"])
        self.U, self.net = dyn.build(self.uspec, self.build_ops)
        self.refs = dyn.element_refs(cfg["topology"])
        self.steppable = not any(self.U.spec_of(r)["cls"] == "Origin" for r in self.refs if r[0] == "o")
        g1 = g2 = cfg.get("garbage", "empty")
        if cfg.get("const_defaults"):
            g1, g2 = 20.0, 35.0  # every engine object fills unsupplied variables with its OWN constant
        self.inst = {k: make_engine(k, g1) for k in ENG_KINDS}
        self.spies = {k: make_spy(make_engine(k, g2)) for k in ENG_KINDS}
        self.twin_const = None
        self.selected = M.engines.get_current_engine()
        self.last_sym = None

    # -- selector ------------------------------------------------------------------------
    def do_use(self, what: str, where: str):
        """Performs engines.use(...) and checks the selection contract.  Returns outcome."""
        M = self.M
        import casadi as cs

        before = M.engines.get_current_engine()
        if before is not self.selected:
            raise Violation("C13/selection-changed-behind-back", f"{where}: current engine is not the one last selected")
        parts = what.split(":")
        if parts[0] == "bad":
            import warnings

            try:
                with warnings.catch_warnings():
                    if self.cfg.get("warnings_as_errors"):
                        warnings.simplefilter("error")  # the caller runs with -W error
                    r = M.engines.use(BAD[what])
            except M.EngineNotFoundError:
                if M.engines.get_current_engine() is not before or M.engine is not before:
                    raise Violation("C13/bad-name-changed-selection", f"{where}: use({BAD[what]!r}) changed the selection")
                self.res.probes["use_bad_refused"] += 1
                return "refused"
            except Exception as e:
                raise Violation("C13/bad-name-wrong-error", f"{where}: use({BAD[what]!r}) raised {type(e).__name__}: {e}")
            raise Violation("C13/bad-name-accepted", f"{where}: use({BAD[what]!r}) returned {r!r}")
        if parts[0] == "name":
            kw = {}
            if parts[1] == "casadi" and len(parts) > 2:
                kw["sym_type"] = parts[2]
            if parts[1] == "numpy" and len(parts) > 2:
                kw["var_type"] = parts[2]
            try:
                r = M.engines.use(parts[1], **kw)
            except M.EngineNotFoundError as e:
                raise Violation("C13/known-name-refused", f"{where}: use({parts[1]!r}) raised EngineNotFoundError: {e}")
            except Exception as e:
                raise Violation("C13/known-name-failed", f"{where}: use({parts[1]!r}, {kw}) raised {type(e).__name__}: {str(e)[:160]}")
            # the right *kind* of engine (decided by behaviour, not by module path or the registry the
            # caller may have scribbled on): NumPy engines have no sym_type, CasADi ones have SX / MX
            from sym_metanet.engines.core import EngineBase

            want = "numpy" if parts[1] == "numpy" else kw.get("sym_type", "SX").lower()
            if not isinstance(r, EngineBase) or kind_of(r) != want:
                raise Violation("C13/use-name-wrong-class", f"{where}: use({parts[1]!r}) returned {type(r).__module__}.{type(r).__name__}")
            if parts[1] == "casadi" and r.sym_type is not getattr(cs, kw.get("sym_type", "SX")):
                raise Violation("C13/use-name-wrong-args", f"{where}: sym_type not honoured")
            if parts[1] == "numpy" and r.var_type != kw.get("var_type", "empty"):
                raise Violation("C13/use-name-wrong-args", f"{where}: var_type not honoured")
            target = r
        else:
            target = (self.inst if parts[0] == "inst" else self.spies)[parts[1]]
            r = M.engines.use(target)
            if r is not target:
                raise Violation("C13/use-instance-not-returned", f"{where}: use(instance) returned another object")
        if M.engines.get_current_engine() is not target or M.engine is not target:
            raise Violation("C13/use-not-current", f"{where}: after use({what}) get_current_engine() is not the selected engine")
        self.selected = target
        self.res.probes["use_" + parts[0]] += 1
        return "ok"

    # -- stepper ---------------------------------------------------------------------------
    def init_for(self, U, op, kind):
        if kind == "numpy":
            vals = dyn.gen_values(op["vals"], self.uspec, self.refs)
            if op.get("omit") and self.twin_const is not None:
                # some variables are left to the engine in use, which must create them itself
                for r, var in op["omit"]:
                    if r in vals:
                        vals[r].pop(var, None)
            return dyn.numeric_init(U, vals, op.get("zero_d", False))
        if op.get("sym") == "caller":
            return dyn.symbolic_init(U, self.refs, kind.upper())
        return None

    @staticmethod
    def full_step(net, ic, engine_kw: dict, opts: dict, mode: str, order=None):
        """One complete step, through Network.step or through the per-element public API."""
        flags_init = {k: v for k, v in opts.items() if k.startswith("positive_init")}
        rest = {k: v for k, v in opts.items() if not k.startswith("positive_init")}
        for f in ("positive_next_speed", "positive_next_density", "positive_next_queue"):
            rest.setdefault(f, False)  # Network.step's defaults (Link.step_dynamics alone defaults speed to True)
        if mode == "net":
            net.step(init_conditions=ic, **engine_kw, **opts)
            return
        ic = ic or {}
        els = list(net.elements)
        for el in els:
            el.init_vars(init_conditions=ic.get(el), **engine_kw, **flags_init)
        todo = [el for el in els if el.states is not None]
        if order is not None:
            order.shuffle(todo)
        for el in todo:
            el.step(net=net, **engine_kw, **rest)

    def twin_results(self, op, kind):
        if "_const" in op:
            self.twin_const = op["_const"]
        """The same step on never-used objects, *undisturbed*: explicit engine, and meanwhile
        the global slot (S2) holds an engine of the same kind, so that the twin's outcome
        cannot depend on this session's selection.  The slot is restored afterwards."""
        M = self.M
        saved = M.engine
        M.engine = make_engine(kind, "empty")
        try:
            U2, net2 = dyn.build(self.uspec, self.build_ops)
            eng2 = make_engine(kind, self.twin_const if (kind == "numpy" and self.twin_const is not None) else "empty")
            ic2 = self.init_for(U2, op, kind)
            self.full_step(net2, ic2, {"engine": eng2}, op["opts"], "net" if self.steppable else "elem")
        finally:
            M.engine = saved
        return U2, net2, eng2

    def neutral(self, kind, fn):
        """Runs fn with an engine of `kind` in the global slot; restores the slot."""
        M = self.M
        saved = M.engine
        M.engine = make_engine(kind, "empty")
        try:
            return fn()
        finally:
            M.engine = saved

    def check_types(self, kind, where):
        for el in self.net.elements:
            for grp in ("states", "next_states", "actions", "disturbances"):
                d = getattr(el, grp)
                for k, v in (d or {}).items():
                    if not dyn.value_type_ok(v, kind):
                        raise Violation(
                            f"C13/wrong-engine-type:{kind}",
                            f"{where}: {self.U.label(el)}.{grp}[{k}] is {type(v).__name__}, expected a {kind} value",
                        )

    def do_step(self, op, i):
        M = self.M
        explicit = op.get("explicit")
        mode = op["mode"] if self.steppable else "elem"
        where = f"op#{i} step[{explicit or 'default'}/{mode}]"
        sel0 = self.selected
        if explicit is None:
            kind = kind_of(sel0)
            engine_kw = {}
        else:
            kind = explicit
            engine_kw = {"engine": self.inst[kind]}
        # which constant the engine in use fills unsupplied NumPy variables with (None: not a constant)
        used = engine_kw.get("engine") or getattr(sel0, "inner", sel0)
        vt = getattr(used, "var_type", None)
        self.twin_const = float(vt) if (kind == "numpy" and isinstance(vt, (int, float, np.floating)) and not isinstance(vt, bool)) else None
        ic = self.init_for(self.U, op, kind)
        hits0 = {k: sum(s.hits.values()) for k, s in self.spies.items()}
        order = np.random.default_rng(op.get("order", 0)) if mode == "elem" else None
        call = lambda: self.full_step(self.net, ic, engine_kw, op["opts"], mode, order)  # noqa: E731
        fault = op.get("fault")
        touched_spies = set()
        if sel0 in self.spies.values():
            touched_spies.add(kind_of(sel0))
        if explicit is not None and fault and fault["kind"] == "switch":
            U2, net2 = dyn.build(self.uspec, self.build_ops)
            ic2 = self.init_for(U2, op, kind)
            saved = M.engine
            M.engine = make_engine(kind, "empty")
            try:
                total = max(1, dyn.count_line_events(
                    lambda: self.full_step(net2, ic2, {"engine": make_engine(kind)}, op["opts"], mode, None)))
            except Exception:
                total = 400  # the calibration twin failed: the real call below will be classified
            finally:
                M.engine = saved
            at = 1 + int(fault["frac"] * total)

            def action(frame):
                self.res.faults["switch_engine"] += 1
                self.res.probes["switch_in:" + frame.f_code.co_name] += 1
                self.do_use(fault["to"], where + " (selector inside the call)")
                if self.selected in self.spies.values():
                    touched_spies.add(kind_of(self.selected))

            runner = lambda: dyn.LineSeam(at, action).run(call)  # noqa: E731
        elif explicit is not None and fault and fault["kind"] == "interrupt":
            U2, net2 = dyn.build(self.uspec, self.build_ops)
            ic2 = self.init_for(U2, op, kind)
            try:
                total = self.neutral(kind, lambda: max(1, dyn.count_line_events(
                    lambda: self.full_step(net2, ic2, {"engine": make_engine(kind)}, op["opts"], mode, None))))
            except Exception:
                total = 400
            seam = dyn.LineSeam(1 + int(fault["frac"] * total), dyn.interrupt_action)
            runner = lambda: seam.run(call)  # noqa: E731
        else:
            runner = call
        interrupted = False
        try:
            runner()
        except core.SimInterrupt:
            interrupted = True
        except Violation:
            raise
        except Exception as e:
            # a step that fails: a defect of engine handling iff an undisturbed twin succeeds
            try:
                self.twin_results(op, kind)
            except Exception as e2:
                if type(e2) is type(e):
                    self.res.probes["step_raised_like_twin:" + type(e).__name__] += 1
                    self.last_sym = None
                    self.last_step = None
                    return "raised:" + type(e).__name__
            raise Violation(
                "C13/step-raised:" + ("explicit" if explicit is not None else "default"),
                f"{where}: raised {type(e).__name__}: {str(e)[:200]} while an undisturbed explicit-engine twin succeeds "
                f"(selected: {kind_of(sel0)})",
            )
        if interrupted:
            # an explicit-engine step cut anywhere (initialisation or dynamics phase): the selection
            # must be exactly what the Selector last chose, and the spies untouched
            self.res.faults["interrupt"] += 1
            self.res.probes["interrupt_in:" + seam.fired[1]] += 1
            if M.engines.get_current_engine() is not self.selected or M.engine is not self.selected:
                raise Violation("C13/step-changed-selection", f"{where}: after an interrupted explicit-engine step "
                                f"(cut in {seam.fired[1]}) the selected engine is no longer the one last selected")
            hits1 = {k: sum(s.hits.values()) for k, s in self.spies.items()}
            for k in sorted(touched_spies):
                if hits1[k] != hits0[k]:
                    raise Violation("C13/selected-engine-used-despite-explicit", f"{where}: spy {k} used before the interrupt")
            self.last_sym = None
            self.last_step = None
            return "interrupted"
        # -- oracles
        if M.engines.get_current_engine() is not self.selected:
            raise Violation("C13/step-changed-selection", f"{where}: the step changed the selected engine")
        hits1 = {k: sum(s.hits.values()) for k, s in self.spies.items()}
        if explicit is not None:
            for k in sorted(touched_spies):
                if hits1[k] != hits0[k]:
                    raise Violation(
                        "C13/selected-engine-used-despite-explicit",
                        f"{where}: the selected (spy {k}) engine was used {hits1[k] - hits0[k]}x: "
                        f"{dict(self.spies[k].hits)}",
                    )
            if touched_spies:
                self.res.probes["spy_selected_during_explicit_step"] += 1
            self.res.probes[f"pair:{kind_of(sel0)}->{kind}"] += 1
        else:
            if sel0 in self.spies.values():
                k = kind_of(sel0)
                if hits1[k] == hits0[k]:
                    raise Violation("C13/default-engine-not-used", f"{where}: the selected spy engine saw no call")
                self.res.probes["spy_default_step"] += 1
            for k in self.spies:
                if self.spies[k] is not sel0 and hits1[k] != hits0[k]:
                    raise Violation("C13/unselected-engine-used", f"{where}: spy {k} is not selected but was used")
        self.check_types(kind, where)
        if kind == "numpy" or op.get("check", True):
            U2, net2, eng2 = self.twin_results(op, kind)
            if kind == "numpy":
                d = dyn.diff_numeric(dyn.next_states_numeric(self.U, self.net), dyn.next_states_numeric(U2, net2))
                if d:
                    raise Violation(f"C13/result-differs:{kind}", f"{where}: differs from an undisturbed explicit-engine twin: {d}")
            else:
                T = op["opts"]["T"]
                real = self.inst[kind] if explicit is not None else getattr(sel0, "inner", sel0)
                h0 = {k: sum(sp.hits.values()) for k, sp in self.spies.items()}
                try:
                    F1 = real.to_function(self.net, T=T, more_out=op.get("more_out", False))
                except Exception as e:
                    self.neutral(kind, lambda: eng2.to_function(net2, T=T, more_out=op.get("more_out", False)))
                    raise Violation("C13/step-raised:explicit", f"{where}: to_function of the stepping engine raised "
                                    f"{type(e).__name__}: {str(e)[:200]} while an undisturbed twin compiles "
                                    f"(selected: {kind_of(self.selected)})")
                h1 = {k: sum(sp.hits.values()) for k, sp in self.spies.items()}
                if explicit is not None and h1 != h0:
                    raise Violation("C13/selected-engine-used-despite-explicit", f"{where}: a spy engine was used during to_function")
                F2 = self.neutral(kind, lambda: eng2.to_function(net2, T=T, more_out=op.get("more_out", False)))
                if dyn.eval_function_keyed(F1, dyn.symbol_keys(self.U, self.net), op["vals"]) != dyn.eval_function_keyed(
                        F2, dyn.symbol_keys(U2, net2), op["vals"]):
                    raise Violation(f"C13/result-differs:{kind}", f"{where}: compiled function differs from an undisturbed twin's")
            self.res.probes[f"twin_compared:{kind}"] += 1
        self.res.nontrivial = True
        self.last_sym = (kind, op) if kind != "numpy" else None
        self.last_step = (kind, dict(op, _const=self.twin_const))
        return "ok"

    def do_compile(self, op, i):
        """Compile with the explicit engine of the last symbolic step while something else
        (usually a spy) is selected; more_out recomputes flows with engine=self."""
        if self.last_sym is None:
            return "skipped"
        kind, sop = self.last_sym
        where = f"op#{i} compile[{kind}]"
        hits0 = {k: sum(s.hits.values()) for k, s in self.spies.items()}
        try:
            F = self.inst[kind].to_function(self.net, compact=op.get("compact", 0), more_out=True, T=sop["opts"]["T"])
        except Exception as e:
            U2, net2, eng2 = self.twin_results(sop, kind)
            try:
                self.neutral(kind, lambda: eng2.to_function(net2, compact=op.get("compact", 0), more_out=True, T=sop["opts"]["T"]))
            except Exception:
                self.res.probes["compile_raised_like_twin"] += 1
                return "raised:" + type(e).__name__
            raise Violation("C13/step-raised:explicit", f"{where}: to_function raised {type(e).__name__}: {str(e)[:200]} "
                            f"while an undisturbed twin compiles (selected: {kind_of(self.selected)})")
        hits1 = {k: sum(s.hits.values()) for k, s in self.spies.items()}
        if hits1 != hits0:
            raise Violation("C13/selected-engine-used-despite-explicit", f"{where}: a spy engine was used during to_function")
        if self.M.engines.get_current_engine() is not self.selected:
            raise Violation("C13/step-changed-selection", f"{where}: to_function changed the selected engine")
        if self.selected in self.spies.values():
            self.res.probes["spy_selected_during_compile"] += 1
        dyn.eval_function(F, op.get("pt", 0))
        return "ok"

    def queries(self, net, U, E, T):
        out = []
        for u, l, v in self.cfg["topology"]["links"]:
            link = U.obj(l)
            out.append(link.get_flow(E))
            a, b = U.obj(u).get_upstream_speed_and_flow(net, link, E, T=T)
            out += [a, b]
            out.append(U.obj(v).get_downstream_density(net, E))
        for o, n in self.cfg["topology"]["origins"]:
            out.append(U.obj(o).get_flow(net, T=T, engine=E))
            out.append(U.obj(o).get_speed(net, engine=E, T=T))
        for d, n in self.cfg["topology"]["dests"]:
            out.append(U.obj(d).get_density(net, engine=E))
        return out

    def do_query(self, op, i):
        """Per-element read-only queries with an explicit engine (valid after any complete
        step of that engine kind)."""
        last = getattr(self, "last_step", None)
        if last is None:
            return "skipped"
        kind, sop = last
        E = self.inst[kind]
        where = f"op#{i} query[{kind}]"
        T = op["T"]
        hits0 = {k: sum(s.hits.values()) for k, s in self.spies.items()}
        try:
            out = self.queries(self.net, self.U, E, T)
        except Exception as e:
            U2, net2, eng2 = self.twin_results(sop, kind)
            try:
                self.neutral(kind, lambda: self.queries(net2, U2, eng2, T))
            except Exception:
                self.res.probes["query_raised_like_twin"] += 1
                return "raised:" + type(e).__name__
            raise Violation("C13/step-raised:explicit", f"{where}: raised {type(e).__name__}: {str(e)[:200]} while the same "
                            f"queries on an undisturbed twin succeed (selected: {kind_of(self.selected)})")
        hits1 = {k: sum(s.hits.values()) for k, s in self.spies.items()}
        if hits1 != hits0:
            raise Violation("C13/selected-engine-used-despite-explicit", f"{where}: a spy engine was used by an element query")
        for x in out:
            if not dyn.value_type_ok(x, kind):
                raise Violation(f"C13/wrong-engine-type:{kind}", f"{where}: query returned {type(x).__name__}")
        if op.get("noengine") and kind_of(self.selected) == kind:
            # the same node queries with NO engine argument: computed with the selected engine
            outd = []
            try:
                for u, l, v in self.cfg["topology"]["links"]:
                    a, b = self.U.obj(u).get_upstream_speed_and_flow(self.net, self.U.obj(l), T=T)
                    outd += [a, b, self.U.obj(v).get_downstream_density(self.net)]
            except Exception as e:
                raise Violation("C13/step-raised:default", f"{where}: node queries without an engine raised {type(e).__name__}: {str(e)[:160]}")
            ref = []
            for u, l, v in self.cfg["topology"]["links"]:
                a, b = self.U.obj(u).get_upstream_speed_and_flow(self.net, self.U.obj(l), E, T=T)
                ref += [a, b, self.U.obj(v).get_downstream_density(self.net, E)]
            for x in outd:
                if not dyn.value_type_ok(x, kind):
                    raise Violation(f"C13/wrong-engine-type:{kind}", f"{where}: a node query without an engine returned "
                                    f"{type(x).__name__} while a {kind} engine is selected")
            if kind == "numpy" and [dyn.numeric_bytes(x) for x in outd] != [dyn.numeric_bytes(x) for x in ref]:
                raise Violation("C13/result-differs:numpy", f"{where}: node queries without an engine differ from the same queries "
                                "with the selected engine passed explicitly")
            self.res.probes["node_queries_without_engine"] += 1
        if kind == "numpy":
            U2, net2, eng2 = self.twin_results(sop, kind)
            out2 = self.neutral(kind, lambda: self.queries(net2, U2, eng2, T))
            if [dyn.numeric_bytes(x) for x in out] != [dyn.numeric_bytes(x) for x in out2]:
                raise Violation("C13/result-differs:numpy", f"{where}: element queries differ from an undisturbed twin's")
        if self.selected in self.spies.values():
            self.res.probes["spy_selected_during_query"] += 1
        return "ok"

    def do_listing(self, op, i):
        """A caller reads the table of available engines and edits *its* copy."""
        d = self.M.engines.get_available_engines()
        if set(d) != set(KNOWN):
            raise Violation("C13/listing-changed", f"op#{i}: get_available_engines() lists {sorted(d)}")
        mut = op["mut"]
        if mut.startswith("nested:"):
            # edits inside the entries (e.g. shortening the module path for display)
            for info in list(d.values()):
                if isinstance(info, dict):
                    if mut == "nested:module":
                        info["module"] = str(info.get("module", "")).rsplit(".", 1)[-1]
                    elif mut == "nested:class":
                        info["class"] = "Nothing"
                    else:
                        info.clear()
        elif mut == "clear":
            d.clear()
        elif mut.startswith("pop:"):
            d.pop(mut[4:], None)
        else:
            d["np"] = {"module": "sym_metanet.engines.numpy", "class": "Engine"}
        self.res.faults["caller_mutates_listing"] += 1
        return "ok"

    def do_elem_after(self, op, i):
        """After a complete NumPy step: step ONE link through its public method with a
        caller-defined explicit engine (distinguishable flow law), without re-initialising.
        Reference: the same link stepped with that engine on a twin that was initialised with
        the same numbers and never saw the other engine."""
        last = getattr(self, "last_step", None)
        if last is None or last[0] != "numpy" or last[1].get("omit"):
            return "skipped"  # (engine-created variables of the last step cannot be handed to the twin)
        kind, sop = last
        l = op["el"]
        if l not in self.refs:
            return "skipped"
        where = f"op#{i} link.step(engine=<caller-defined>)"
        EX = make_engine_x()
        rest = {k: v for k, v in sop["opts"].items() if not k.startswith("positive_init")}
        flags_init = {k: v for k, v in sop["opts"].items() if k.startswith("positive_init")}
        for f in ("positive_next_speed", "positive_next_density", "positive_next_queue"):
            rest.setdefault(f, False)
        hits0 = {k: sum(s.hits.values()) for k, s in self.spies.items()}
        try:
            self.U.obj(l).step(net=self.net, engine=EX, **rest)
        except Exception as e:
            raise Violation("C13/step-raised:explicit", f"{where}: raised {type(e).__name__}: {str(e)[:200]}")
        hits1 = {k: sum(s.hits.values()) for k, s in self.spies.items()}
        if hits1 != hits0:
            raise Violation("C13/selected-engine-used-despite-explicit", f"{where}: a spy engine was used")
        got = {k: dyn.numeric_bytes(v) for k, v in self.U.obj(l).next_states.items()}

        def twin():
            U2, net2 = dyn.build(self.uspec, self.build_ops)
            ic2 = self.init_for(U2, sop, "numpy")
            for el in net2.elements:
                el.init_vars(init_conditions=ic2.get(el), engine=EX, **flags_init)
            U2.obj(l).step(net=net2, engine=EX, **rest)
            return {k: dyn.numeric_bytes(v) for k, v in U2.obj(l).next_states.items()}

        exp = self.neutral("numpy", twin)
        if got != exp:
            raise Violation("C13/result-differs:caller-defined-engine",
                            f"{where}: next state of {l} is not what the passed engine computes from the current states")
        self.res.probes["elem_step_with_caller_defined_engine"] += 1
        self.last_step = None
        self.last_sym = None
        return "ok"

    def run(self):
        res = self.res
        ops = self.trace["ops"]
        res.n_ops = len(ops)
        for i, op in enumerate(ops):
            k = op["op"]
            fk = op["fault"]["kind"] if op.get("fault") else "-"
            try:
                if k == "use":
                    outcome = self.do_use(op["what"], f"op#{i} use")
                elif k == "step":
                    outcome = self.do_step(op, i)
                elif k == "compile":
                    outcome = self.do_compile(op, i)
                elif k == "query":
                    outcome = self.do_query(op, i)
                elif k == "listing":
                    outcome = self.do_listing(op, i)
                elif k == "elem_after":
                    outcome = self.do_elem_after(op, i)
                else:
                    raise core.HarnessError(f"unknown op {k}")
            except Violation as v:
                res.violation = {"check": v.check, "detail": v.detail, "op_index": i}
                res.log(i, k, fk, "VIOLATION", v.check)
                return
            res.sig.append((k, op.get("what"), op.get("explicit"), op.get("mode"), fk, outcome))
            res.log(i, k, op.get("what"), op.get("explicit"), fk, outcome, kind_of(self.selected),
                    {a: dict(s.hits) for a, s in self.spies.items()})
            res.states.add(core.H(kind_of(self.selected), self.selected in self.spies.values(), op.get("explicit"), outcome))


def execute(trace: dict) -> Result:
    res = Result()
    core.pin_process(trace.get("run_seed", 0))
    Session(trace, res).run()
    return res


# ---- generation ---------------------------------------------------------------------------

USES = (["spy:numpy", "spy:sx", "spy:mx"] * 3 + ["inst:numpy", "inst:sx", "inst:mx", "name:numpy", "name:casadi",
        "name:casadi:SX", "name:casadi:MX", "name:numpy:rand", "name:numpy:randn"] + list(BAD))


def gen_step(rng, cfg, tier, explicit="?"):
    if explicit == "?":
        explicit = rng.choice(["numpy", "numpy", "sx", "mx", None])
    op = {"op": "step", "explicit": explicit, "mode": rng.choice(["net", "net", "elem"]), "vals": rng.getrandbits(32),
          "opts": dyn.gen_opts(rng), "sym": rng.choice(["auto", "caller"]), "order": rng.getrandbits(16),
          "check": rng.random() < (0.5 if tier == "quick" else 0.9), "more_out": rng.random() < 0.4}
    op["zero_d"] = True if (cfg["merging_ramp"] and "delta" in op["opts"]) else rng.random() < 0.3
    if cfg.get("const_defaults") and "delta" not in op["opts"] and rng.random() < 0.5:
        refs = dyn.element_refs(cfg["topology"])
        op["omit"] = [[r, v] for r in refs for v in ("rho", "v", "w", "d", "r", "q", "v_ctrl") if rng.random() < 0.25]
    if explicit is not None and "switch" in cfg["enabled"] and rng.random() < 0.4:
        op["fault"] = {"kind": "switch", "frac": round(rng.random(), 4), "to": rng.choice(USES)}
    elif explicit is not None and "interrupt" in cfg["enabled"] and rng.random() < 0.3:
        op["fault"] = {"kind": "interrupt", "frac": round(rng.random() ** 2, 4)}
    return op


def generate(prop: str, run_seed: int, tier: str = "quick") -> dict:
    rng = core.rng_of(run_seed)
    U = dyn.gen_dyn_universe(rng, ideal_origins=rng.random() < 0.4)
    topo = dyn.gen_dyn_topology(rng, U)
    enabled = set()
    if rng.random() > 0.3:
        enabled.add("switch")
    if rng.random() < 0.5:
        enabled.add("garbage")
    if rng.random() < 0.6:
        enabled.add("interrupt")
    cfg = {"topology": topo, "enabled": sorted(enabled), "merging_ramp": dyn.has_merging_ramp(topo, U),
           "warnings_as_errors": rng.random() < 0.3, "const_defaults": rng.random() < 0.3,
           "garbage": rng.choice(["rand", "randn", 3.25]) if "garbage" in enabled else "empty"}
    ops = []
    n = rng.randint(4, 10) if tier == "quick" else rng.randint(6, 16)
    if rng.random() < 0.04:
        n = rng.randint(20, 32)  # swarm: now and then a long history
    for _ in range(n):
        r = rng.random()
        if r < 0.35:
            ops.append({"op": "use", "what": rng.choice(USES)})
        elif r < 0.8:
            ops.append(gen_step(rng, cfg, tier))
            if ops[-1]["explicit"] is None and rng.random() < 0.4:
                ops.append({"op": "query", "T": round(rng.uniform(8, 12) / 3600, 8), "noengine": True})
        elif r < 0.87:
            ops.append({"op": "compile", "compact": rng.choice([0, 1, 2]), "pt": rng.getrandbits(16)})
        elif r < 0.92:
            ops.append({"op": "listing", "mut": rng.choice(["clear", "pop:casadi", "pop:numpy", "add:np", "nested:module", "nested:class", "nested:clear"])})
        elif r < 0.96:
            ops.append({"op": "elem_after", "el": rng.choice([l for _, l, _ in topo["links"]])})
        else:
            ops.append({"op": "query", "T": round(rng.uniform(8, 12) / 3600, 8), "noengine": rng.random() < 0.6})
    # quiescent: one undisturbed explicit step against a selected spy, one default step
    ops.append({"op": "use", "what": rng.choice(["spy:numpy", "spy:sx", "spy:mx"])})
    ops.append(gen_step(rng, dict(cfg, enabled=[]), tier, explicit=rng.choice(ENG_KINDS)))
    ops.append(gen_step(rng, dict(cfg, enabled=[]), tier, explicit=None))
    return {"prop": prop, "run_seed": run_seed, "universe": U, "cfg": cfg, "ops": ops}


def simplify_op(op: dict):
    if op.get("fault"):
        o = dict(op); del o["fault"]; yield o
    if op.get("omit"):
        o = dict(op); del o["omit"]; yield o
    if op["op"] == "step":
        opts = op["opts"]
        for k in list(opts):
            if k not in ("tau", "eta", "kappa", "T"):
                o = dict(op); o["opts"] = {a: b for a, b in opts.items() if a != k}; yield o
        if op.get("mode") == "elem":
            yield dict(op, mode="net")
        if op.get("more_out"):
            yield dict(op, more_out=False)


def simplify_trace(trace: dict):
    cfg = trace["cfg"]
    if cfg.get("garbage") != "empty":
        yield dict(trace, cfg=dict(cfg, garbage="empty"))


TIERS = {
    "C13": {
        "quick": {"runs": 6000, "selftest": 12, "chunk": 100, "wall_cap": 900, "run_timeout": 120},
        "thorough": {"runs": 150000, "selftest": 48, "chunk": 400, "wall_cap": 3300, "run_timeout": 120,
                     "expect_probes": ["switch_engine", "interrupt", "spy_selected_during_explicit_step", "spy_default_step",
                                       "spy_selected_during_compile", "spy_selected_during_query", "use_bad_refused",
                                       "caller_mutates_listing", "elem_step_with_caller_defined_engine", "node_queries_without_engine",
                                       "use_name", "use_inst", "use_spy"]
                     + [f"pair:{a}->{b}" for a in ENG_KINDS for b in ENG_KINDS]},
    }
}
RULES = {
    "C13": "One run = one seeded history of two simulated callers sharing the module-global engine: a Selector "
    "(engines.use by name with constructor arguments, by instance, with a spy engine, with unknown names) and a "
    "Stepper/Compiler on one valid random network with every element kind (ideal origins included through the per-element "
    "API): steps with an explicit engine or with the selected one, through Network.step or the per-element public "
    "methods in seeded order, compiles with more_out, element queries; fault: the Selector re-selects the engine at a "
    "seeded line event *inside* an explicit-engine call. Non-trivial = at least one step checked against spies, value "
    "types and an undisturbed twin; distinct = distinct sequence of (op, selection, explicit engine, route, fault, outcome).",
}
COMPONENTS = {
    "real": ["sym_metanet.engines.use/get_current_engine and every engine-forwarding call site (working tree of /repo)",
             "NumPy and CasADi engines", "networkx", "numpy", "casadi"],
    "simulator_side": ["Selector and Stepper actors, scheduler", "spy engine (EngineBase subclass delegating to a real engine) installed through the public engines.use(instance)", "line-event seam (sys.settrace)"],
    "stubbed": [],
}
ASSUMPTIONS = {
    "C13": [
        "a spy counts uses of the selected engine (attribute access / method call), not reads of the global",
        "default-engine calls are never pre-empted: the code re-reads the global at every element and the property promises no atomicity there",
        "ideal Origin is exercised only through the per-element API (Network.step asserts on it on the pinned tree, outside the claimed set)",
    ]
}
