"""Command line driver.

  python -m sim.check <PROP> --tier quick|thorough     seeded search over schedules/faults
  python -m sim.check <PROP> --replay FILE             re-executes a stored trace
  python -m sim.check <PROP> --selftest                determinism (same seed twice, fresh
                                                       interpreter under another PYTHONHASHSEED)
Exit codes: 0 property held on everything explored; 1 violation (a line
``VIOLATION property=<id> replay=<path>`` is printed); 2 harness problem (never a verdict).
"""

from __future__ import annotations

import argparse
import faulthandler
import json
import multiprocessing
import os
import subprocess
import sys
import time
import traceback
from collections import Counter
from concurrent.futures import ProcessPoolExecutor

HERE = os.path.dirname(os.path.dirname(os.path.abspath(__file__)))

# a fixed hash seed: nothing in a run may depend on it (the self-test proves that), but a
# fixed value removes one variable from any later debugging
if os.environ.get("PYTHONHASHSEED") is None:
    os.environ["PYTHONHASHSEED"] = "0"
    os.execv(sys.executable, [sys.executable, "-m", "sim.check"] + sys.argv[1:])

from . import core  # noqa: E402
from .registry import PROPS  # noqa: E402

EVID_DIR = os.path.join(HERE, "evidence")
REPLAY_DIR = os.path.join(HERE, "replays")
KNOWN_FILE = os.path.join(HERE, "known_findings.json")


def load_known(prop: str) -> list:
    try:
        with open(KNOWN_FILE) as f:
            data = json.load(f)
    except FileNotFoundError:
        return []
    return [e for e in data.get("findings", []) if e["property"] == prop and e.get("status") == "known"]


def match_known(known: list, violation: dict):
    for e in known:
        if violation["check"] == e["signature"]:
            return e
    return None


# ---- process isolation ------------------------------------------------------------------
#
# Every batch of runs, every minimisation candidate and every confirmation executes in a child
# forked from a process that has itself never executed a session.  A run therefore cannot see
# state left in module globals of the library by anything except the earlier runs of its own
# batch, and (prop, VERIF_SEED, tier, run indices of the batch up to the failing one) is a
# complete, exactly replayable description of what it saw.


def isolated(fn, args, timeout: float):
    """Runs fn(*args) in a forked child; returns ("ok", value) or ("error", text)."""
    import pickle
    import select
    import signal

    r, w = os.pipe()
    pid = os.fork()
    if pid == 0:
        try:
            os.close(r)
            try:
                payload = ("ok", fn(*args))
            except BaseException as e:
                payload = ("error", "".join(traceback.format_exception(e))[-3000:])
            with os.fdopen(w, "wb") as f:
                pickle.dump(payload, f)
        finally:
            os._exit(0)
    os.close(w)
    chunks = []
    deadline = time.time() + timeout
    with os.fdopen(r, "rb") as f:
        while True:
            left = deadline - time.time()
            if left <= 0:
                os.kill(pid, signal.SIGKILL)
                os.waitpid(pid, 0)
                return ("error", f"timeout after {timeout}s")
            ready, _, _ = select.select([f], [], [], min(left, 1.0))
            if ready:
                b = os.read(f.fileno(), 1 << 20)
                if not b:
                    break
                chunks.append(b)
    os.waitpid(pid, 0)
    try:
        return pickle.loads(b"".join(chunks))
    except Exception as e:
        return ("error", f"child died without a result ({type(e).__name__})")


# ---- one batch of runs ------------------------------------------------------------------


def run_batch(args):
    prop, verif_seed, tier, lo, hi, per_run_timeout = args
    st, val = isolated(_run_batch_inner, (args,), timeout=per_run_timeout * 4 + (hi - lo) * 2.0)
    if st == "ok":
        return val
    return {"n": 0, "ops": 0, "probes": Counter(), "faults": Counter(), "sigs": set(), "states": set(),
            "nontrivial_sigs": set(), "violations": [], "errors": [{"error": f"batch {lo}-{hi}: {val}"}],
            "samples": [], "outcomes": Counter()}


def _run_batch_inner(args):
    prop, verif_seed, tier, lo, hi, per_run_timeout = args
    faulthandler.enable()
    import warnings

    warnings.simplefilter("ignore")
    mod = PROPS[prop]
    out = {
        "n": 0, "ops": 0, "probes": Counter(), "faults": Counter(), "sigs": set(), "states": set(),
        "nontrivial_sigs": set(), "violations": [], "errors": [], "samples": [], "outcomes": Counter(),
    }
    for idx in range(lo, hi):
        run_seed = core.run_seed_of(verif_seed, prop, idx)
        faulthandler.dump_traceback_later(per_run_timeout, exit=True)
        try:
            trace = mod.generate(prop, run_seed, tier)
            res = mod.execute(trace)
        except BaseException as e:  # harness problem, never a verdict
            out["errors"].append({"run_index": idx, "run_seed": run_seed, "error": "".join(traceback.format_exception(e))[-3000:]})
            faulthandler.cancel_dump_traceback_later()
            if len(out["errors"]) > 3:
                break
            continue
        faulthandler.cancel_dump_traceback_later()
        out["n"] += 1
        out["ops"] += res.n_ops
        out["probes"].update(res.probes)
        out["faults"].update(res.faults)
        h = res.sig_hash()
        out["sigs"].add(h)
        if res.nontrivial:
            out["nontrivial_sigs"].add(h)
        out["states"].update(res.states)
        if res.violation is not None:
            if len(out["violations"]) < 20:
                out["violations"].append({"run_index": idx, "batch_lo": lo, "run_seed": run_seed, "violation": res.violation, "trace": trace})
            out["outcomes"]["violation:" + res.violation["check"]] += 1
        else:
            out["outcomes"]["ok"] += 1
        if idx - lo < 1 and lo % 7 == 0 and len(out["samples"]) < 1:
            out["samples"].append({"run_index": idx, "run_seed": run_seed, "ops": trace["ops"][:40], "cfg": trace.get("cfg", {}), "digest": res.digest()})
    return out


# ---- minimisation --------------------------------------------------------------------


def _exec_trace(prop, trace):
    import warnings

    warnings.simplefilter("ignore")
    return PROPS[prop].execute(trace).violation


def _exec_batch(prop, verif_seed, tier, indices):
    import warnings

    warnings.simplefilter("ignore")
    mod = PROPS[prop]
    v = None
    for idx in indices:
        rs = core.run_seed_of(verif_seed, prop, idx)
        v = mod.execute(mod.generate(prop, rs, tier)).violation
    return v


def violation_of_trace(prop, trace):
    st, v = isolated(_exec_trace, (prop, trace), timeout=120)
    return v if st == "ok" else None


def violation_of_batch(prop, verif_seed, tier, indices):
    st, v = isolated(_exec_batch, (prop, verif_seed, tier, indices), timeout=600)
    return v if st == "ok" else None


def fails_same(prop, trace, check_id) -> bool:
    v = violation_of_trace(prop, trace)
    return v is not None and v["check"] == check_id


def minimise_batch(prop, verif_seed, tier, indices, check_id, budget_s=90.0):
    """ddmin over the runs that precede the failing one in its batch (the last stays)."""
    t0 = time.time()
    last = indices[-1]
    pre = list(indices[:-1])

    def fails(p):
        v = violation_of_batch(prop, verif_seed, tier, p + [last])
        return v is not None and v["check"] == check_id

    n = 2
    while pre and time.time() - t0 < budget_s:
        chunk = max(1, len(pre) // n)
        reduced = False
        for i in range(0, len(pre), chunk):
            cand = pre[:i] + pre[i + chunk :]
            if fails(cand):
                pre = cand
                n = max(n - 1, 2)
                reduced = True
                break
        if not reduced:
            if chunk == 1:
                break
            n = min(len(pre), n * 2)
    return pre + [last]


def minimise(mod, trace: dict, check_id: str, budget_s: float = 60.0) -> dict:
    """ddmin over whole ops, then per-op simplification, keeping a candidate only while the
    same check id fails (every candidate runs in a pristine forked child)."""
    t0 = time.time()
    prop = trace["prop"]
    ops = list(trace["ops"])

    def with_ops(o):
        t = dict(trace)
        t["ops"] = o
        return t

    n = 2
    while len(ops) >= 2 and time.time() - t0 < budget_s:
        chunk = max(1, len(ops) // n)
        reduced = False
        for i in range(0, len(ops), chunk):
            cand = ops[:i] + ops[i + chunk :]
            if cand and fails_same(prop, with_ops(cand), check_id):
                ops = cand
                n = max(n - 1, 2)
                reduced = True
                break
        if not reduced:
            if chunk == 1:
                break
            n = min(len(ops), n * 2)
    changed = True
    simp = getattr(mod, "simplify_op", None)
    while changed and simp is not None and time.time() - t0 < budget_s:
        changed = False
        for i, op in enumerate(ops):
            for cand_op in simp(op):
                cand = ops[:i] + [cand_op] + ops[i + 1 :]
                if fails_same(prop, with_ops(cand), check_id):
                    ops = cand
                    changed = True
                    break
            if changed:
                break
    simp_t = getattr(mod, "simplify_trace", None)
    t = with_ops(ops)
    if simp_t is not None:
        changed = True
        while changed and time.time() - t0 < budget_s:
            changed = False
            for cand in simp_t(t):
                if fails_same(prop, cand, check_id):
                    t = cand
                    changed = True
                    break
    return t


def replay_in_fresh_process(prop: str, path: str) -> int:
    env = dict(os.environ)
    return subprocess.run(
        [sys.executable, "-m", "sim.check", prop, "--replay", path, "--quiet"], cwd=HERE, env=env,
        stdout=subprocess.DEVNULL, stderr=subprocess.DEVNULL, timeout=600,
    ).returncode


# ---- tiers ----------------------------------------------------------------------------


def write_evidence(prop, tier, seed, cov, wall, n_viol, assumptions):
    os.makedirs(EVID_DIR, exist_ok=True)
    ev = {
        "property_id": prop, "tier": tier, "seed": int(seed), "level": "exploration",
        "coverage": cov, "assumptions": assumptions, "wall_s": round(wall, 2), "violations": int(n_viol),
    }
    tmp = os.path.join(EVID_DIR, f".{prop}.json.tmp")
    with open(tmp, "w") as f:
        json.dump(ev, f, indent=1, sort_keys=True, default=str)
    os.replace(tmp, os.path.join(EVID_DIR, f"{prop}.json"))


def selftest(prop: str, seed: int, n: int, tier: str) -> dict:
    """Same run_seed twice in this interpreter; once more in a fresh interpreter under a
    different PYTHONHASHSEED; all digests must agree."""
    mod = PROPS[prop]
    digs = []
    for i in range(n):
        rs = core.run_seed_of(seed, prop + "/selftest", i)
        t1 = mod.generate(prop, rs, tier)
        d1 = mod.execute(t1).digest()
        t2 = mod.generate(prop, rs, tier)
        d2 = mod.execute(t2).digest()
        if core.jdump(t1) != core.jdump(t2) or d1 != d2:
            return {"ok": False, "why": f"same-interpreter divergence at selftest run {i} (run_seed {rs})"}
        digs.append(d1)
    code = (
        "import sys,json; sys.path.insert(0, %r)\n"
        "from sim import core; from sim.registry import PROPS\n"
        "mod = PROPS[%r]; out = []\n"
        "for i in range(%d):\n"
        "    rs = core.run_seed_of(%d, %r, i)\n"
        "    out.append(mod.execute(mod.generate(%r, rs, %r)).digest())\n"
        "print(json.dumps(out))\n"
    ) % (HERE, prop, n, seed, prop + "/selftest", prop, tier)
    env = dict(os.environ, PYTHONHASHSEED=str(1 + seed % 1000))
    p = subprocess.run([sys.executable, "-c", code], cwd=HERE, env=env, capture_output=True, text=True, timeout=600)
    if p.returncode != 0:
        return {"ok": False, "why": "fresh interpreter failed: " + p.stderr[-800:]}
    other = json.loads(p.stdout.strip().splitlines()[-1])
    if other != digs:
        bad = [i for i, (a, b) in enumerate(zip(digs, other)) if a != b]
        return {"ok": False, "why": f"fresh-interpreter divergence at selftest runs {bad[:5]}"}
    return {"ok": True, "seeds": n, "executions_per_seed": 3, "hash_seeds": [os.environ.get("PYTHONHASHSEED"), env["PYTHONHASHSEED"]]}


def main(argv=None) -> int:
    ap = argparse.ArgumentParser()
    ap.add_argument("prop")
    ap.add_argument("--tier", default=os.environ.get("VERIF_TIER", "quick"), choices=["quick", "thorough"])
    ap.add_argument("--replay")
    ap.add_argument("--selftest", action="store_true")
    ap.add_argument("--runs", type=int)
    ap.add_argument("--workers", type=int, default=min(16, os.cpu_count() or 1))
    ap.add_argument("--quiet", action="store_true")
    ap.add_argument("--no-evidence", action="store_true")
    a = ap.parse_args(argv)
    prop = a.prop
    if prop not in PROPS:
        print(f"unknown or not-applicable property {prop}", file=sys.stderr)
        return 2
    mod = PROPS[prop]
    seed = int(os.environ.get("VERIF_SEED", "0") or 0)

    if a.replay:
        with open(a.replay) as f:
            rep = json.load(f)
        import warnings

        warnings.simplefilter("ignore")
        if rep.get("mode") == "batch":
            viol = _exec_batch(prop, rep["verif_seed"], rep["tier"], rep["run_indices"])
        else:
            viol = mod.execute(rep["trace"]).violation
        want = rep.get("violation", {}).get("check")
        if viol is None:
            if not a.quiet:
                print(f"replay: no violation (stored: {want})")
            return 0
        if not a.quiet:
            print(f"replay: {viol['check']}: {viol['detail']}")
            print(f"VIOLATION property={prop} replay={os.path.abspath(a.replay)}")
        return 1

    if a.selftest:
        ok_, st = isolated(selftest, (prop, seed, a.runs or 64, a.tier), timeout=3000)
        if ok_ != "ok":
            st = {"ok": False, "why": str(st)[-1500:]}
        print(json.dumps(st))
        return 0 if st["ok"] else 2

    import warnings

    warnings.simplefilter("ignore")
    import sym_metanet  # noqa: F401  (imported before any fork; the driver itself never runs a session)

    cfg = mod.TIERS[prop][a.tier]
    n_runs = a.runs or cfg["runs"]
    t0 = time.time()
    print(f"[{prop}] tier={a.tier} VERIF_SEED={seed} runs={n_runs} workers={a.workers}", flush=True)

    chunk = max(1, min(cfg.get("chunk", 500), (n_runs + a.workers * 4 - 1) // (a.workers * 4)))
    tasks = [(prop, seed, a.tier, lo, min(n_runs, lo + chunk), cfg.get("run_timeout", 120)) for lo in range(0, n_runs, chunk)]
    agg = {
        "n": 0, "ops": 0, "probes": Counter(), "faults": Counter(), "sigs": set(), "states": set(),
        "nontrivial_sigs": set(), "violations": [], "errors": [], "samples": [], "outcomes": Counter(),
    }
    wall_cap = float(os.environ.get("VERIF_WALL_CAP", cfg.get("wall_cap", 3600)))
    truncated = False
    ctx = multiprocessing.get_context("fork")
    with ProcessPoolExecutor(max_workers=a.workers, mp_context=ctx) as ex:
        futs = [ex.submit(run_batch, t) for t in tasks]
        def absorb(o):
            agg["n"] += o["n"]
            agg["ops"] += o["ops"]
            for k in ("probes", "faults", "outcomes"):
                agg[k].update(o[k])
            for k in ("sigs", "states", "nontrivial_sigs"):
                agg[k] |= o[k]
            agg["violations"].extend(o["violations"])
            agg["errors"].extend(o["errors"])
            if len(agg["samples"]) < 3:
                agg["samples"].extend(o["samples"])

        seen = set()
        for fu in futs:
            try:
                remaining = max(1.0, wall_cap - (time.time() - t0))
                o = fu.result(timeout=remaining)
            except TimeoutError:
                # the wall cap only ever truncates (and says so in the evidence): the runs completed so
                # far are the result, the rest of this tier's runs are not explored this time
                truncated = True
                for g in futs:
                    g.cancel()
                break
            except Exception as e:
                agg["errors"].append({"error": f"worker failed: {type(e).__name__}: {e}"})
                truncated = True
                for g in futs:
                    g.cancel()
                break
            seen.add(id(fu))
            absorb(o)
    if truncated:
        # (leaving the `with` block waited for the batches that were already running: keep their results)
        for fu in futs:
            if id(fu) not in seen and fu.done() and not fu.cancelled() and fu.exception() is None:
                absorb(fu.result())
        print(f"[{prop}] wall cap of {wall_cap}s reached after {agg['n']} of {n_runs} runs: truncated", flush=True)
    wall_search = time.time() - t0

    # determinism self-test (same seeds twice here, once more in a fresh interpreter under
    # another PYTHONHASHSEED).  Run after the search: a library change that keeps hidden
    # process-global state makes repeated executions diverge, and when the search has
    # already turned that into a violation the violation is what gets reported.
    if agg["violations"]:
        st = {"ok": None, "why": "skipped: the search found violations"}
    else:
        ok_, st = isolated(selftest, (prop, seed, cfg.get("selftest", 24), a.tier), timeout=900)
        if ok_ != "ok":
            st = {"ok": False, "why": "self-test crashed: " + str(st)[-1500:]}
    if st["ok"] is False and not agg["violations"]:
        print(f"HARNESS: determinism self-test failed: {st['why']}")
        return 2

    # classify violations: known findings vs new
    known = load_known(prop)
    known_hits = Counter()
    new = {}
    for v in agg["violations"]:
        e = match_known(known, v["violation"])
        if e is not None:
            known_hits[e["signature"]] += 1
        else:
            new.setdefault(v["violation"]["check"], v)
    for k, c in agg["outcomes"].items():
        if k.startswith("violation:"):
            chk = k[len("violation:"):]
            if any(e["signature"] == chk for e in known):
                known_hits[chk] = max(known_hits[chk], c)
    for e in known:
        if known_hits.get(e["signature"]):
            print(f"KNOWN-FINDING: property={prop} {e['signature']} -- {e['what']} (seen {known_hits[e['signature']]}x)")

    replays = []
    os.makedirs(REPLAY_DIR, exist_ok=True)
    for chk, v in sorted(new.items()):
        path = os.path.join(REPLAY_DIR, f"{prop}-{v['run_seed']}.json")
        iso = violation_of_trace(prop, v["trace"])
        if iso is not None and iso["check"] == chk:
            small = minimise(mod, v["trace"], chk, budget_s=cfg.get("min_budget", 60))
            final = violation_of_trace(prop, small) or v["violation"]
            rep = {"mode": "trace", "property": prop, "verif_seed": seed, "tier": a.tier, "run_index": v["run_index"],
                   "run_seed": v["run_seed"], "violation": final, "trace": small,
                   "original_ops": len(v["trace"]["ops"]), "minimised_ops": len(small["ops"])}
        else:
            # the failure needs state left behind by earlier runs of the same batch (hidden
            # process-global state in the library): the replay is the batch prefix
            idxs = list(range(v["batch_lo"], v["run_index"] + 1))
            small_idx = minimise_batch(prop, seed, a.tier, idxs, chk, budget_s=cfg.get("min_budget", 60) * 1.5)
            final = violation_of_batch(prop, seed, a.tier, small_idx) or v["violation"]
            rep = {"mode": "batch", "property": prop, "verif_seed": seed, "tier": a.tier, "run_indices": small_idx,
                   "violation": final, "original_runs": len(idxs), "minimised_runs": len(small_idx),
                   "note": "not reproducible from the failing run alone: depends on library state left by the listed earlier runs"}
        with open(path, "w") as f:
            json.dump(rep, f, indent=1)
        rc = replay_in_fresh_process(prop, path)
        if rc != 1:
            agg["errors"].append({"error": f"minimised replay {path} ({chk}) did not reproduce in a fresh process (rc={rc})"})
        replays.append((chk, path, final["detail"], rc == 1))

    wall = time.time() - t0
    probes_expected = cfg.get("expect_probes", [])
    missing = [p for p in probes_expected if not agg["probes"].get(p) and not agg["faults"].get(p)]
    cov = {
        "evaluations": agg["n"],
        "distinct_nontrivial": len(agg["nontrivial_sigs"]),
        "rule": mod.RULES[prop],
        "samples": agg["samples"][:3],
        "ops_total": agg["ops"],
        "logical_time_events": agg["ops"],
        "runs_per_hour": int(agg["n"] / max(wall_search, 1e-9) * 3600),
        "distinct_interleavings": len(agg["sigs"]),
        "distinct_states": len(agg["states"]),
        "faults_fired": dict(sorted(agg["faults"].items())),
        "probes": dict(sorted(agg["probes"].items())),
        "probes_expected_but_zero": missing,
        "outcomes": dict(sorted(agg["outcomes"].items())),
        "determinism": st,
        "truncated_by_wall_cap": truncated,
        "known_findings_seen": dict(known_hits),
        "components": mod.COMPONENTS,
        "simulated_time": "the library has no clock; logical time = number of operations and yield-point events",
        "workers": a.workers,
    }
    if not a.no_evidence:
        write_evidence(prop, a.tier, seed, cov, wall, len(new), mod.ASSUMPTIONS[prop])
    print(f"[{prop}] runs={agg['n']} ops={agg['ops']} distinct_nontrivial={cov['distinct_nontrivial']} "
          f"faults={dict(agg['faults'])} wall={wall:.1f}s runs/h={cov['runs_per_hour']}", flush=True)
    confirmed = [r for r in replays if r[3]]
    if agg["errors"]:
        for e in agg["errors"][:3]:
            print("HARNESS:", e.get("error", "")[-1500:])
        if not confirmed:
            return 2
    if a.tier == "thorough" and missing:
        print(f"HARNESS: reach probes stuck at zero: {missing}")
        return 2
    if new:
        for chk, path, detail, ok in replays:
            if ok:
                print(f"  {chk}: {detail}")
                print(f"VIOLATION property={prop} replay={path}")
        return 1 if confirmed else 2
    return 0


if __name__ == "__main__":
    try:
        rc = main()
    except SystemExit:
        raise
    except BaseException:  # a crash of the driver is a harness problem, never exit 0 or 1
        traceback.print_exc()
        print("HARNESS: driver crashed")
        rc = 2
    sys.exit(rc)
