"""Regenerates MANIFEST.json from one place (run: /venv/bin/python tools_manifest.py)."""
import json, subprocess

PY = "/venv/bin/python"
CLAIMED = {
    "C06": ("5 (C06)", "seeded search over multi-caller construction histories with injected iterator faults and re-entrant validation; verdict compared with a 9-condition reference predicate on a snapshot of the graph"),
    "C08": ("5 (C08)", "seeded search over interleavings of mutating calls, reads, re-entrant reads inside lazy iterables and failing iterables; every read compared with a recomputation from the networkx graph at that instant (cache coherence against ground truth)"),
    "C09": ("5 (C09)", "seeded search over construction-call sequences incl. malformed/lazy/failing paths; op-by-op refinement of the real graph against a small reference graph model with a prefix envelope for rejected/aborted calls"),
    "C12": ("5 (C12)", "seeded search over step/compile histories with line-level interrupts, aliasing and engine changes; fresh-twin oracle (bitwise) plus byte snapshots of caller data"),
    "C13": ("5 (C13)", "seeded search over selection/step histories with a second simulated caller re-selecting the module-global engine between and inside steps (sys.settrace line events); spy engines on the selected slot, type and bitwise twin oracles"),
    "C14": ("5 (C14)", "seeded search over builder interleavings/API routes/renamings/turn-rate scalings of one target network; next states compared with the canonical build, share clause recomputed from the step's own inputs and outputs"),
    "C19": ("5 (C19)", "seeded search over interleavings of construction, per-element init/step, interrupted steps and compiles; readiness state machine as reference model, free-symbol check and fresh-twin comparison of the compiled function"),
}
LEVEL_TEXT = {
    "C06": "Exploration: many short seeded sessions; each validation call is compared with an independent predicate. Not exhaustive; reach probes report which sole-condition violations and valid/invalid transitions were actually visited.",
    "C08": "Exploration: many short seeded sessions with reads placed before and after mutations (the only way a memoised lookup can be stale). Not exhaustive; the (lookup cached before mutator) pair counts are reported as reach probes.",
    "C09": "Exploration: many short seeded sessions; the graph is compared with the reference model after every call. Not exhaustive over path shapes beyond the generated lengths (<= 9 items).",
    "C12": "Exploration: seeded histories on one network object; sampling only.",
    "C13": "Exploration: seeded histories over (selected, explicit) engine pairs; sampling only.",
    "C14": "Exploration: seeded pairs/tuples of related builds; sampling only.",
    "C19": "Exploration: seeded histories over readiness states; sampling only.",
}
NOTE = {
    "C06": "Trusted: networkx adjacency as ground truth; the reference predicate (sim/refnet.py: ref_valid) transcribes the is_valid docstring.",
    "C08": "Trusted: networkx graph as ground truth; call-granularity interleaving plus re-entrancy through caller iterables is the whole schedule space of a single-threaded library.",
    "C09": "Trusted: the reference graph model (sim/refnet.py: RefNet, effects); an aborted/rejected call may leave any prefix of its effects.",
    "C12": "Trusted: the twin is the same library code on never-used objects, so an error that is wrong the same way with and without a past is invisible (that is C01's territory).",
    "C13": "Trusted: a spy engine counts *uses* of the selected engine, not reads of the global.",
    "C14": "Trusted: rtol 1e-9 for reordered floating-point sums; share clause uses only definitions of flow and inflow.",
    "C19": "Trusted: CasADi's own free-variable detection is part of the system under test; readiness model in sim/ (see DESIGN 5).",
}
NA = {
    "C01": "pure input/output relation of one step (equality with the METANET equations); no call order, fault or shared state in the statement, so schedule/fault search cannot decide it",
    "C02": "conservation is an algebraic identity of one step's own inputs and outputs; a multi-step run would only sample inputs",
    "C03": "compiled-function vs interpreted-step agreement is translation validation over inputs; nothing to schedule or fault",
    "C04": "argument/result layout is a static property of the returned casadi.Function for a given network",
    "C05": "consistency between outputs of a single function evaluation; pure",
    "C07": "'accepted implies executable and finite' quantifies over topologies, configurations and boundary inputs only",
    "C10": "dependency (Jacobian sparsity) statement about a symbolic expression; structural, no history",
    "C11": "metamorphic relation between two evaluations with different option flags; pure",
    "C15": "differential equality of stateless static primitives of the two engines; pure",
    "C16": "substitution of numbers for symbols in a compiled function; pure",
    "C17": "inequalities over the argument domain of stateless flow laws; pure",
    "C18": "relations between pairs of settings/networks evaluated once each; pure",
}

def build(implemented):
    checks = []
    for pid in sorted(implemented):
        ref, tech = CLAIMED[pid]
        checks.append({
            "property_id": pid,
            "quick_cmd": f"{PY} -m sim.check {pid} --tier quick",
            "thorough_cmd": f"{PY} -m sim.check {pid} --tier thorough",
            "evidence_file": f"/verif/evidence/{pid}.json",
            "replay_cmd_template": f"{PY} -m sim.check {pid} --replay {{path}}",
            "engine": "sim",
            "level_claimed": {"category": "exploration", "text": LEVEL_TEXT[pid], "design_ref": "DESIGN.md section " + ref},
            "level_note": NOTE[pid],
            "technique": "deterministic simulation with fault injection: " + tech,
        })
    na = [{"property_id": k, "reason": v} for k, v in sorted(NA.items())]
    for pid in sorted(set(CLAIMED) - set(implemented)):
        na.append({"property_id": pid, "reason": "applicable (history property) but its check is not built yet; see DESIGN.md section 5"})
    return {
        "version": 1,
        "setup_cmd": f"cd /verif && {PY} -c \"import sys; sys.path.insert(0, '/repo/src'); import sym_metanet, networkx, numpy, casadi; import sim.registry\"",
        "hooks": {
            "guard": "SYM_METANET_VERIF",
            "enable": "no source hook exists: all seams are public parameters (lazy iterables, engine=), public attributes and sys.settrace; checks import /repo/src directly",
            "baseline_off_cmd": "cd /repo && /venv/bin/python -m pytest -ra -q -p no:cacheprovider --timeout=900 --continue-on-collection-errors",
            "source_commits": [],
            "add_only": True,
        },
        "engines": [{"name": "sim", "path": "/verif/sim", "serves_properties": sorted(implemented),
                     "kind_free_text": "seeded deterministic simulator of the library's callers (builders, readers, validators, selectors, steppers, compilers) with fault directives at the yield points the code really has; own trace format, ddmin minimiser and replay"}],
        "checks": checks,
        "not_applicable": sorted(na, key=lambda e: e["property_id"]),
        "notes": "Genuine defects repaired in /repo by 'fix:' commits are listed in /verif/known_findings.json (status fixed). Exit code 2 of a check means a harness problem, never a verdict.",
    }

if __name__ == "__main__":
    import sys
    from sim.registry import PROPS
    m = build(set(PROPS))
    json.dump(m, open("MANIFEST.json", "w"), indent=1)
    print("claimed:", sorted(PROPS))
