"""Confirms independently seeded changes and runs the checks against them.

  /venv/bin/python tools/seeded.py import <PROP> <worktree> <round>   confirm every out/patch_k.diff of a sub-agent's
                                                                      worktree and store the confirmed ones in /verif/seeded/
  /venv/bin/python tools/seeded.py run [id-substring ...] [--tier quick] [--all-props]
                                                                      apply each stored patch to a scratch copy and run the check
Scratch copies live under /tmp and are removed afterwards; /repo is never touched.
"""
import glob, json, os, re, shutil, subprocess, sys, tempfile, time

V = "/verif"
PY = "/venv/bin/python"


def sh(cmd, cwd=None, env=None, timeout=1800):
    p = subprocess.run(cmd, cwd=cwd, env=env, capture_output=True, text=True, timeout=timeout, shell=isinstance(cmd, str))
    return p.returncode, p.stdout + p.stderr


def confirm(wt, k):
    out = {}
    env = dict(os.environ, PYTHONPATH=f"{wt}/src")
    sh("git checkout -- .", cwd=wt)
    rc, o = sh(f"git apply --check out/patch_{k}.diff && git apply out/patch_{k}.diff", cwd=wt)
    out["applies"] = rc == 0
    if rc != 0:
        out["apply_output"] = o[-500:]
        return out
    rc, o = sh(f"{PY} -m pytest -q -p no:cacheprovider --continue-on-collection-errors tests", cwd=wt, env=env)
    m = re.search(r"(\d+) passed", o)
    out["tests_passed_with_change"] = int(m.group(1)) if m else 0
    out["tests_failed_with_change"] = int(re.search(r"(\d+) failed", o).group(1)) if re.search(r"(\d+) failed", o) else 0
    rc, o = sh(f"{PY} out/demo_{k}.py", cwd=wt, env=env, timeout=600)
    out["demo_with_change"] = {"rc": rc, "tail": o.strip()[-300:]}
    sh("git checkout -- .", cwd=wt)
    rc, o = sh(f"{PY} out/demo_{k}.py", cwd=wt, env=env, timeout=600)
    out["demo_clean"] = {"rc": rc, "tail": o.strip()[-200:]}
    out["confirmed"] = (out["tests_passed_with_change"] >= 54 and out["tests_failed_with_change"] == 0
                        and out["demo_with_change"]["rc"] != 0 and out["demo_clean"]["rc"] == 0)
    return out


def do_import_benign(prop, wt, rnd):
    """Benign (property-preserving) invasive changes: tests pass, demo passes with and without."""
    env = dict(os.environ, PYTHONPATH=f"{wt}/src")
    for pf in sorted(glob.glob(f"{wt}/out/patch_*.diff")):
        k = re.search(r"patch_(\d+)", pf).group(1)
        sh("git checkout -- .", cwd=wt)
        rc, o = sh(f"git apply --check out/patch_{k}.diff && git apply out/patch_{k}.diff", cwd=wt)
        if rc != 0:
            print(prop, k, "does not apply", o[-200:]); continue
        rc, o = sh(f"{PY} -m pytest -q -p no:cacheprovider --continue-on-collection-errors tests", cwd=wt, env=env)
        m = re.search(r"(\d+) passed", o); npass = int(m.group(1)) if m else 0
        nfail = int(re.search(r"(\d+) failed", o).group(1)) if re.search(r"(\d+) failed", o) else 0
        rc1, o1 = sh(f"{PY} out/demo_{k}.py", cwd=wt, env=env, timeout=900)
        sh("git checkout -- . && git clean -fdq src", cwd=wt)
        rc0, o0 = sh(f"{PY} out/demo_{k}.py", cwd=wt, env=env, timeout=900)
        ok = npass >= 54 and nfail == 0 and rc1 == 0 and rc0 == 0
        sid = f"{prop}-b{rnd}-{k}"
        print(sid, "confirmed" if ok else f"NOT CONFIRMED pass={npass} fail={nfail} demo_with={rc1} demo_clean={rc0}")
        if not ok:
            continue
        d = f"{V}/seeded_benign/{sid}"
        os.makedirs(d, exist_ok=True)
        shutil.copy(pf, f"{d}/patch.diff")
        shutil.copy(f"{wt}/out/demo_{k}.py", f"{d}/demo.py")
        note = open(f"{wt}/out/note_{k}.md").read() if os.path.exists(f"{wt}/out/note_{k}.md") else ""
        json.dump({"id": sid, "property": prop, "kind": "benign: the property still holds; every check must stay silent",
                   "source": f"sub-agent (benign round {rnd}), given only the property text and a scratch worktree",
                   "argument": note.strip(), "confirmation": {"tests_passed": npass, "demo_with_change_rc": rc1, "demo_clean_rc": rc0},
                   "checks": {}}, open(f"{d}/meta.json", "w"), indent=1)


def do_import(prop, wt, rnd):
    for pf in sorted(glob.glob(f"{wt}/out/patch_*.diff")):
        k = re.search(r"patch_(\d+)", pf).group(1)
        c = confirm(wt, k)
        sid = f"{prop}-r{rnd}-{k}"
        print(sid, "confirmed" if c.get("confirmed") else "NOT CONFIRMED", json.dumps(c)[:300])
        if not c.get("confirmed"):
            continue
        d = f"{V}/seeded/{sid}"
        os.makedirs(d, exist_ok=True)
        shutil.copy(pf, f"{d}/patch.diff")
        shutil.copy(f"{wt}/out/demo_{k}.py", f"{d}/demo.py")
        note = open(f"{wt}/out/note_{k}.md").read() if os.path.exists(f"{wt}/out/note_{k}.md") else ""
        meta = {"id": sid, "property": prop, "source": f"sub-agent round {rnd}, given only the property text and a scratch worktree",
                "needs_to_manifest": note.strip(), "confirmation": c,
                "what_i_ran": "in the scratch worktree: git apply; pytest (54 pass); demo (fails); git checkout; demo (passes)",
                "checks": {}}
        json.dump(meta, open(f"{d}/meta.json", "w"), indent=1)


def run_checks(ids, tier, all_props, runs=None, benign=False):
    tmp = tempfile.mkdtemp(prefix="seed_", dir="/tmp")
    rows = []
    try:
        for d in sorted(glob.glob(f"{V}/{'seeded_benign' if benign else 'seeded'}/*/")):
            sid = os.path.basename(d.rstrip("/"))
            if ids and not any(i in sid for i in ids):
                continue
            meta = json.load(open(f"{d}/meta.json"))
            shutil.rmtree(f"{tmp}/r", ignore_errors=True)
            os.makedirs(f"{tmp}/r")
            shutil.copytree("/repo/src", f"{tmp}/r/src")
            pf = f"{d}/patch_rebased.diff" if os.path.exists(f"{d}/patch_rebased.diff") else f"{d}/patch.diff"
            rc, o = sh(f"git init -q . && git apply {pf}", cwd=f"{tmp}/r")
            if rc != 0:
                print(sid, "patch does not apply to the current /repo tree:", o[-200:]); continue
            props = ["C06", "C08", "C09", "C12", "C13", "C14", "C19"] if all_props else [meta["property"]]
            if os.environ.get("SEEDED_PROPS"):
                props = os.environ["SEEDED_PROPS"].split(",")
            for p in props:
                env = dict(os.environ, SYM_METANET_SRC=f"{tmp}/r/src")
                cmd = [PY, "-m", "sim.check", p, "--tier", tier, "--no-evidence"] + (["--runs", str(runs)] if runs else [])
                t0 = time.time()
                rc, o = sh(cmd, cwd=V, env=env, timeout=7200)
                viol = [l.strip() for l in o.splitlines() if l.startswith("  C")]
                res = {"rc": rc, "tier": tier, "runs": runs, "wall_s": round(time.time() - t0, 1), "first": viol[0][:300] if viol else ""}
                meta["checks"][p] = res
                rows.append((sid, p, rc, viol[0][:160] if viol else ""))
                if benign:
                    tag = {0: "silent (ok)", 1: "FALSE ALARM", 2: "HARNESS"}.get(rc, rc)
                else:
                    tag = 'CAUGHT' if rc == 1 else 'MISSED' if rc == 0 else 'HARNESS'
                extra = viol[0][:200] if viol else ("" if rc != 2 else o[-600:].replace("\n", " | "))
                print(f"{sid} [{p}] rc={rc} {tag} {extra}", flush=True)
            json.dump(meta, open(f"{d}/meta.json", "w"), indent=1)
    finally:
        shutil.rmtree(tmp, ignore_errors=True)
        shutil.rmtree(f"{V}/replays", ignore_errors=True)
    return rows


if __name__ == "__main__":
    a = sys.argv[1:]
    if a[0] == "import":
        do_import(a[1], a[2], a[3])
    elif a[0] == "import-benign":
        do_import_benign(a[1], a[2], a[3])
    else:
        tier = "quick"; runs = None
        if "--tier" in a:
            i = a.index("--tier"); tier = a[i + 1]; del a[i:i + 2]
        if "--runs" in a:
            i = a.index("--runs"); runs = int(a[i + 1]); del a[i:i + 2]
        allp = "--all-props" in a
        benign = "--benign" in a
        a = [x for x in a[1:] if not x.startswith("--")]
        run_checks(a, tier, allp, runs, benign)
