"""Prints the markdown table of seeded changes (from seeded/*/meta.json) for DESIGN.md 10.5."""
import glob, json, os, re
rows = []
for d in sorted(glob.glob("/verif/seeded/*/")):
    m = json.load(open(d + "meta.json"))
    pf = d + ("patch_rebased.diff" if os.path.exists(d + "patch_rebased.diff") else "patch.diff")
    files = sorted(set(re.findall(r"^\+\+\+ b/src/sym_metanet/(\S+)", open(pf).read(), flags=re.M)))
    note = [l.strip() for l in m["needs_to_manifest"].splitlines() if l.strip() and not l.startswith("#")]
    what = (note[0] if note else "")[:150].replace("|", "/")
    c = m.get("checks", {}).get(m["property"], {})
    res = {1: "caught", 0: "**not flagged**", 2: "harness"}.get(c.get("rc"), "not run")
    sig = c.get("first", "").split(":")[0].strip() if c.get("rc") == 1 else ""
    sig = ":".join(c.get("first", "").split(":")[:2]).strip()[:60] if c.get("rc") == 1 else ""
    rows.append(f"| {m['id']} | {', '.join(files)} | {what} | {res} {('`' + sig + '`') if sig else ''} |")
print("| id | files | change (first line of the author's note) | own property's quick check |")
print("|----|-------|-------------------------------------------|----------------------------|")
print("\n".join(rows))
