"""Sensitivity harness: applies one small source mutation at a time to a scratch copy of
/repo/src (under /tmp, removed afterwards) and runs a check against it through the
SYM_METANET_SRC override.  Usage: /venv/bin/python tools/mutants.py [PROP ...] [--runs N]"""
import os, shutil, subprocess, sys, tempfile

M = []  # (id, props, file, old, new)
def m(id, props, file, old, new): M.append((id, props.split(), [(file, old, new)]))
def mm(id, props, edits): M.append((id, props.split(), edits))

N = "network.py"
# ---- C08
m("c08_addnode_noinv", "C08", N, "    @invalidate_cache(nodes_by_name)\n    def add_node(", "    def add_node(")
m("c08_addlink_drop_nbl", "C08", N, "@invalidate_cache(nodes_by_name, links_by_name, nodes_by_link)\n    def add_link(", "@invalidate_cache(nodes_by_name, links_by_name)\n    def add_link(")
m("c08_addlink_drop_lbn", "C08", N, "@invalidate_cache(nodes_by_name, links_by_name, nodes_by_link)\n    def add_link(", "@invalidate_cache(nodes_by_name, nodes_by_link)\n    def add_link(")
m("c08_addorigin_drop_obn", "C08", N, "@invalidate_cache(nodes_by_name, origins, origins_by_node, origins_by_name)", "@invalidate_cache(nodes_by_name, origins, origins_by_node)")
m("c08_addorigin_drop_obnode", "C08", N, "@invalidate_cache(nodes_by_name, origins, origins_by_node, origins_by_name)", "@invalidate_cache(nodes_by_name, origins, origins_by_name)")
m("c08_adddest_drop_dest", "C08", N, "nodes_by_name, destinations, destinations_by_node, destinations_by_name\n", "nodes_by_name, destinations_by_node, destinations_by_name\n")
m("c08_adddest_drop_dbnode", "C08", N, "nodes_by_name, destinations, destinations_by_node, destinations_by_name\n", "nodes_by_name, destinations, destinations_by_name\n")
m("c08_links_cached_list", "C08", N, "        return OutLinkViewWrapper(self._graph)", "        return list(OutLinkViewWrapper(self._graph))")
m("c08_inv_after", "C08", "util/funcs.py", "            if invalidate_cached_properties is not None and args:\n                invalidate_cached_properties(args[0])\n            if invalidate_lru_caches is not None:\n                invalidate_lru_caches()\n            return func(*args, **kwargs)", "            r = func(*args, **kwargs)\n            if invalidate_cached_properties is not None and args:\n                invalidate_cached_properties(args[0])\n            return r")
m("c08_inlinks_swapped", "C08 C06", "views.py", "class InLinkViewWrapper(nx.classes.reportviews.InEdgeView):", "class InLinkViewWrapper(nx.classes.reportviews.OutEdgeView):")
m("c08_addnodes_bulk", "C08", N, "        for node in nodes:\n            self.add_node(node)\n", "        self._graph.add_nodes_from(nodes)\n")
# ---- C09
m("c09_swap_updown", "C09", N, "self._graph.add_edge(node_up, node_down, **{LINKENTRY: link})", "self._graph.add_edge(node_down, node_up, **{LINKENTRY: link})")
m("c09_dest_under_origin", "C09 C06", N, "            self.nodes[node][DESTINATIONENTRY] = destination\n", "            self.nodes[node][ORIGINENTRY] = destination\n")
m("c09_origin_readd", "C09", N, "        if node not in self.nodes:\n            self._graph.add_node(node, **{ORIGINENTRY: origin})\n        else:\n            self.nodes[node][ORIGINENTRY] = origin", "        self._graph.remove_node(node) if node in self.nodes else None\n        self._graph.add_node(node, **{ORIGINENTRY: origin})")
m("c09_path_skip_linkcheck", "C09", N, "                if not isinstance(point, Link):", "                if False:")
m("c09_path_skip_nodecheck", "C09", N, "                if not isinstance(point, Node):", "                if i > 3 and not isinstance(point, Node):")
m("c09_path_lastnode", "C09", N, "        if not isinstance(last_node, Node):", "        if not isinstance(first_node, Node):")
m("c09_path_single_ok", "C09", N, "        if not longer_than_one:\n            raise ValueError", "        if False:\n            raise ValueError")
m("c09_path_drop_last_link", "C09", N, "                self.add_node(point)\n                self.add_link(*current_link)", "                self.add_node(point)\n                if i < 5: self.add_link(*current_link)")
m("c09_addlinks_skip_dup", "C09", N, "        for node_up, link, node_down in links:\n            self.add_link(node_up, link, node_down)", "        for node_up, link, node_down in links:\n            if (node_up, node_down) not in self._graph.edges: self.add_link(node_up, link, node_down)")
# ---- C06
m("c06_no_cond1", "C06", N, "            if d > 1:\n", "            if d > 2:\n")
m("c06_cond1_links_only", "C06", N, "            (link[2] for link in self.links), iter(origin_destination_yielder())\n", "            (link[2] for link in self.links), iter(())\n")
m("c06_no_cond2", "C06", N, "if ORIGINENTRY in nodedata and DESTINATIONENTRY in nodedata:", "if False:")
m("c06_no_cond4", "C06", N, "if n_in == 0 and ORIGINENTRY not in nodedata:", "if False:")
m("c06_no_cond5", "C06", N, "if n_out == 0 and DESTINATIONENTRY not in nodedata:", "if False:")
m("c06_cond6_origin_cls", "C06", N, "if not isinstance(origin, MeteredOnRamp) and any(self.in_links(node)):", "if not isinstance(origin, Origin) and any(self.in_links(node)):")
m("c06_cond6_len2", "C06", N, "if not isinstance(origin, MeteredOnRamp) and any(self.in_links(node)):", "if not isinstance(origin, MeteredOnRamp) and len(self.in_links(node)) > 1:")
m("c06_cond7_gt2", "C06", N, "            if len(self.out_links(node)) > 1:", "            if len(self.out_links(node)) > 2:")
m("c06_cond8_gt2", "C06", N, "            if len(self.in_links(node)) > 1:", "            if len(self.in_links(node)) > 2:")
m("c06_no_cond9", "C06", N, "            if any(self.out_links(node)):", "            if False:")
m("c06_forget_raise9", "C06", N, "it is connected to destination {destination.name}.\"\n                )\n                if raises:", "it is connected to destination {destination.name}.\"\n                )\n                if False:")
m("c06_msgs_only3_true", "C06", N, "        return not msgs, msgs", "        return (not msgs) or all('connected to no link' in s for s in msgs), msgs")
m("c06_selfloop_degree", "C06", N, "n_in, n_out = len(self.in_links(node)), len(self.out_links(node))", "n_in, n_out = len([1 for u,_,_ in self.in_links(node) if u is not node]), len(self.out_links(node))")

# ---- C12
NP = "engines/numpy.py"; CA = "engines/casadi.py"; LK = "blocks/links.py"; BS = "blocks/base.py"; OR = "blocks/origins.py"; ND = "blocks/nodes.py"
m("c12_np_speed_inplace", "C12", NP, "        v_next = v + relaxation + convection - anticipation\n        if q_ramp is not None and delta is not None:\n            v_next[0] -= (delta * T", "        v_next = v\n        v_next += relaxation + convection - anticipation\n        if q_ramp is not None and delta is not None:\n            v_next[0] -= (delta * T")
m("c12_np_max_out", "C12", NP, "        return np.maximum(array1, array2)", "        return np.maximum(array1, array2, out=array2) if isinstance(array2, np.ndarray) and array2.ndim else np.maximum(array1, array2)")
m("c12_next_states_setdefault", "C12 C19", BS, "            self.next_states[name] = next_state\n", "            self.next_states.setdefault(name, next_state)\n")
m("c12_flow_memo", "C12", LK, "        if engine is None:\n            engine = get_current_engine()\n        return engine.links.get_flow(self.states[\"rho\"], self.states[\"v\"], self.lam)", "        if engine is None:\n            engine = get_current_engine()\n        k = (id(self), type(engine).__module__)\n        if k not in _FLOWS:\n            _FLOWS[k] = engine.links.get_flow(self.states[\"rho\"], self.states[\"v\"], self.lam)\n        return _FLOWS[k]\n\n    global _FLOWS\n    _FLOWS = {}")
m("c12_actions_kept", "C12", OR, "        self.actions: dict[str, VarType] = {\n            \"r\": init_conditions[\"r\"]\n            if \"r\" in init_conditions\n            else engine.var(f\"r_{self.name}\")\n        }", "        if self.actions is None or \"r\" not in self.actions: self.actions = {\n            \"r\": init_conditions[\"r\"]\n            if \"r\" in init_conditions\n            else engine.var(f\"r_{self.name}\")\n        }")
m("c12_upflow_inplace_orig", "C12", NP, "        Q = np.sum(q_lasts, 0)\n        if q_orig is not None:\n            Q += q_orig\n", "        Q = np.sum(q_lasts, 0)\n        if q_orig is not None:\n            q_orig += Q\n            Q = q_orig\n")
m("c12_veq_memo", "C12", LK, "        return engine.links.Veq(rho, self.v_free, self.rho_crit, self.a)", "        k = (id(self), str(type(rho)))\n        if k not in _VEQ:\n            _VEQ[k] = engine.links.Veq(rho, self.v_free, self.rho_crit, self.a)\n        return _VEQ[k]\n\n    global _VEQ\n    _VEQ = {}")
m("c12_density_inplace", "C12", NP, "        return rho + (T / lanes / L) * (q_up - q)", "        rho += (T / lanes / L) * (q_up - q)\n        return rho")
m("c12_queue_inplace_when_big", "C12", NP, "        return w + T * (d - q)", "        if np.ndim(w) and w[0] > 100: w += T * (d - q); return w\n        return w + T * (d - q)")
m("c12_turnrate_normalised_inplace", "C12 C14", ND, "            betas = engine.vcat(*(dlink.turnrate for _, _, dlink in links_down))\n", "            betas = engine.vcat(*(dlink.turnrate for _, _, dlink in links_down))\n            for _, _, dlink in links_down: dlink.turnrate = dlink.turnrate / sum(float(b) for b in [x[2].turnrate for x in links_down]) if not hasattr(dlink.turnrate, 'dep') else dlink.turnrate\n")
m("c12_init_skip_if_same_shape", "C12", LK, "        self.states: dict[str, VarType] = {\n            name: (\n                init_conditions[name]\n                if name in init_conditions", "        self.states: dict[str, VarType] = {\n            name: (\n                init_conditions[name]\n                if name in init_conditions and not (self.states is not None and self.next_states is None)")

# ---- C13
CO = "engines/core.py"; DS = "blocks/destinations.py"
m("c13_link_getflow", "C13", LK, "        q = self.get_flow(engine)\n", "        q = self.get_flow()\n")
m("c13_link_upstream", "C13", LK, "node_up.get_upstream_speed_and_flow(net, self, engine, T=T)", "node_up.get_upstream_speed_and_flow(net, self, T=T)")
m("c13_link_downstream", "C13", LK, "node_down.get_downstream_density(net, engine)", "node_down.get_downstream_density(net)")
m("c13_link_qramp", "C13", LK, "q_ramp = origin.get_flow(net, T, engine)", "q_ramp = origin.get_flow(net, T)")
m("c13_vsl_init", "C13", LK, "        super().init_vars(init_conditions, engine, **kwargs)", "        super().init_vars(init_conditions, **kwargs)")
m("c13_node_destdensity", "C13", ND, "            return net.destinations_by_node[self].get_density(\n                net, engine=engine, **kwargs\n            )", "            return net.destinations_by_node[self].get_density(\n                net, **kwargs\n            )")
m("c13_node_originflow", "C13", ND, "            q_o = origin.get_flow(net, engine=engine, **kwargs)", "            q_o = origin.get_flow(net, **kwargs)")
m("c13_node_up1_flow", "C13", ND, "            q = link_up.get_flow(engine)[-1]\n", "            q = link_up.get_flow()[-1]\n")
m("c13_node_upN_flow", "C13", ND, "                q_last.append(link_up.get_flow(engine)[-1])", "                q_last.append(link_up.get_flow()[-1])")
m("c13_origin_ideal_flow", "C13", OR, "        return self._get_exiting_link(net).get_flow(engine)[0]", "        return self._get_exiting_link(net).get_flow()[0]")
m("c13_mainstream_step", "C13", OR, "        q = self.get_flow(net, T, engine, **kwargs)\n        w_next = engine.origins.step_queue(\n            self.states[\"w\"], self.disturbances[\"d\"], q, T\n        )\n\n        if positive_next_queue:\n            w_next = engine.max(0, w_next)\n        return {\"w\": w_next}\n\n    def get_flow(  # type: ignore[override]\n        self,\n        net: \"Network\",\n        T: Union[VarType, float],\n        engine: Optional[EngineBase] = None,\n        **_,\n    ) -> VarType:\n        \"\"\"Computes the (upstream) flow induced by the mainstream", "        q = self.get_flow(net, T, **kwargs)\n        w_next = engine.origins.step_queue(\n            self.states[\"w\"], self.disturbances[\"d\"], q, T\n        )\n\n        if positive_next_queue:\n            w_next = engine.max(0, w_next)\n        return {\"w\": w_next}\n\n    def get_flow(  # type: ignore[override]\n        self,\n        net: \"Network\",\n        T: Union[VarType, float],\n        engine: Optional[EngineBase] = None,\n        **_,\n    ) -> VarType:\n        \"\"\"Computes the (upstream) flow induced by the mainstream")
m("c13_simplified_init", "C13", OR, "        super().init_vars(init_conditions, engine, *args, **kwargs)", "        super().init_vars(init_conditions, None, *args, **kwargs)")
m("c13_net_init", "C13", N, "                init_conditions=init_conditions.get(el),  # type: ignore[arg-type]\n                engine=engine,", "                init_conditions=init_conditions.get(el),  # type: ignore[arg-type]")
m("c13_net_originstep", "C13", N, "                net=self,\n                engine=engine,\n                positive_next_queue", "                net=self,\n                positive_next_queue")
m("c13_net_linkstep", "C13", N, "                net=self,\n                engine=engine,\n                positive_next_speed", "                net=self,\n                positive_next_speed")
m("c13_tofunc_linkflow", "C13", CA, "        flows_link.append(link.get_flow(engine))", "        flows_link.append(link.get_flow())")
m("c13_tofunc_originflow", "C13", CA, "            origin.get_flow(net, engine=engine, **parameters, **other_parameters)", "            origin.get_flow(net, **parameters, **other_parameters)")
m("c13_use_clobber_on_bad", "C13", CO, "        if engine not in engines:\n            raise EngineNotFoundError(", "        if engine not in engines:\n            sym_metanet.engine = None\n            raise EngineNotFoundError(")
m("c13_use_instance_copy", "C13", CO, "    if isinstance(engine, EngineBase):\n        sym_metanet.engine = engine", "    if isinstance(engine, EngineBase):\n        import copy\n        sym_metanet.engine = copy.copy(engine)")
m("c13_current_cached", "C13", CO, "        The current symbolic engine.\n    \"\"\"\n    return sym_metanet.engine\n", "        The current symbolic engine.\n    \"\"\"\n" + "    global _CUR\n    try:\n        return _CUR\n    except NameError:\n        _CUR = sym_metanet.engine\n        return _CUR\n")
m("c13_use_bad_valueerror", "C13", CO, "            raise EngineNotFoundError(\n", "            raise ValueError(\n")
m("c13_use_lower", "C13", CO, "        engines = get_available_engines()\n        if engine not in engines:", "        engines = get_available_engines()\n        engine = engine.lower() if isinstance(engine, str) else engine\n        if engine not in engines:")
m("c13_step_sets_engine", "C13", N, "        # initialization\n        if init_conditions is None:", "        # initialization\n        if engine is not None:\n            import sym_metanet\n            sym_metanet.engine = engine\n        if init_conditions is None:")
m("c13_dest_density_congested", "C13", DS, "        if engine is None:\n            engine = get_current_engine()\n        link_up = self._get_entering_link(net)\n        return engine.destinations.get_congested_downstream_density(", "        engine = get_current_engine()\n        link_up = self._get_entering_link(net)\n        return engine.destinations.get_congested_downstream_density(")

# ---- C19
m("c19_scan_links_only", "C19", CA, "        for el, group in product(\n            net.elements, [\"_states\", \"_actions\", \"_disturbances\"]\n        ):", "        for el, group in product(\n            [l for _, _, l in net.links], [\"_states\", \"_actions\", \"_disturbances\"]\n        ):")
m("c19_no_group_check", "C19", CA, "            if any(getattr(el, group)) and not getattr(el, f\"has{group}\"):", "            if False:")
m("c19_no_nextstate_check", "C19", CA, "            if any(el._states) and not el.has_next_states:", "            if False:")
m("c19_states_only", "C19", CA, "net.elements, [\"_states\", \"_actions\", \"_disturbances\"]", "net.elements, [\"_states\"]")
m("c19_allow_free", "C19", CA, "{\"allow_duplicate_io_names\": True, \"cse\": True},", "{\"allow_duplicate_io_names\": True, \"cse\": True, \"allow_free\": True},")
m("c19_valueerror", "C19", CA, "                raise RuntimeError(\n                    f\"Found no next state in", "                raise ValueError(\n                    f\"Found no next state in")
m("c19_step_skip_stepped", "C19 C12", BS, "        assert self.states is not None, \"States not initialized.\"\n", "        assert self.states is not None, \"States not initialized.\"\n        if self.next_states is not None and len(self.next_states) == len(self.states) and kwargs.get('_force') is None and hasattr(self, 'N') and self.N == 1:\n            return\n")
mm("c19_tofunc_cache", "C19 C12", [(CA, "        if parameters is None:\n            parameters = {}\n\n        # gather inputs", "        if parameters is None:\n            parameters = {}\n        key = (id(net), compact, more_out)\n        if key in _FCACHE and not parameters:\n            return _FCACHE[key]\n\n        # gather inputs"),
    (CA, "VarType = TypeVar(\"VarType\", cs.SX, cs.MX)\n", "VarType = TypeVar(\"VarType\", cs.SX, cs.MX)\n_FCACHE = {}\n"),
    (CA, "        return cs.Function(\n            \"F\",", "        _FCACHE[(id(net), compact, more_out)] = F = cs.Function(\n            \"F\","),
    (CA, "            {\"allow_duplicate_io_names\": True, \"cse\": True},\n        )", "            {\"allow_duplicate_io_names\": True, \"cse\": True},\n        )\n        return F")])
m("c19_has_next_states_any", "C19", BS, "        return self.next_states is not None\n", "        return self.next_states is not None or self.states is not None\n")
m("c19_init_clears_nothing_but_marks", "C19", CA, "            if any(el._states) and not el.has_next_states:", "            if any(el._states) and not el.has_next_states and not el.has_states:")
m("c19_filter_free_inputs", "C19", CA, "        x_next = {\n            el: _filter_vars(vars, independent=False)\n            for el, vars in net.next_states.items()\n        }", "        x_next = {\n            el: _filter_vars(vars, independent=False)\n            for el, vars in net.next_states.items()\n        }\n        _known = set(str(s) for a in args_in for s in cs.symvar(a))\n        for el in list(x_next):\n            x_next[el] = {k: v for k, v in x_next[el].items() if all(str(s) in _known for s in cs.symvar(v))}")

# ---- C14
m("c14_gauss_seidel", "C14", BS, "            self.next_states[name] = next_state\n", "            self.next_states[name] = next_state\n            if name == 'rho': self.states[name] = next_state\n")
mm("c14_no_normalise", "C14", [(NP, "        return (beta / np.sum(betas, 0)) * Q", "        return beta * Q"), (CA, "        return (beta / cs.sum1(betas)) * Q", "        return beta * Q")])
mm("c14_normalise_max1", "C14", [(NP, "        return (beta / np.sum(betas, 0)) * Q", "        return (beta / max(1.0, np.sum(betas, 0))) * Q"), (CA, "        return (beta / cs.sum1(betas)) * Q", "        return (beta / cs.fmax(1.0, cs.sum1(betas))) * Q")])
m("c14_betas0", "C14", ND, "            q = engine.nodes.get_upstream_flow(q_last, link.turnrate, betas, q_o)", "            q = engine.nodes.get_upstream_flow(q_last, betas[0], betas, q_o)")
m("c14_fix_reverted", "C14", ND, "            if len(exiting) > 1:", "            if False:")
m("c14_downstream_first_only", "C14", ND, "        if len(links_down) == 1:\n            return first(links_down)[-1].states[\"rho\"][0]", "        if len(links_down) >= 1:\n            return first(links_down)[-1].states[\"rho\"][0]")
m("c14_by_name_lookup", "C14", LK, "        node_up, node_down = net.nodes_by_link[self]  # type: ignore[index]", "        node_up, node_down = net.nodes_by_link[net.links_by_name[self.name]]  # type: ignore[index]")
m("c14_origin_by_name", "C14", OR, "        links_down: Collection[tuple[\"Node\", \"Node\", \"Link[VarType]\"]] = net.out_links(\n            net.origins[self]  # type: ignore[index]\n        )", "        links_down: Collection[tuple[\"Node\", \"Node\", \"Link[VarType]\"]] = net.out_links(\n            net.origins[net.origins_by_name[self.name]]  # type: ignore[index]\n        )")
m("c14_upspeed_first", "C14", NP, "        return np.sum(v_lasts * q_lasts, 0) / np.sum(q_lasts, 0)", "        return v_lasts[0]")
m("c14_equal_split_when_unit", "C14", ND, "                q = engine.nodes.get_upstream_flow(engine.vcat(q), link.turnrate, betas)", "                q = engine.nodes.get_upstream_flow(engine.vcat(q), 1.0, engine.vcat(*(1.0 for _ in exiting)))")
m("c14_ramp_first_link", "C14", ND, "        if self in net.origins_by_node:\n            origin = net.origins_by_node[self]", "        if self in net.origins_by_node and first(net.links)[0] is not self:\n            origin = net.origins_by_node[self]")
m("c14_destination_name_sort", "C14", ND, "        rho_firsts = engine.vcat(\n            *(dlink.states[\"rho\"][-1] for _, _, dlink in links_down)\n        )", "        rho_firsts = engine.vcat(\n            *(dlink.states[\"rho\"][-1] for _, _, dlink in links_down if dlink.name <= max(x[2].name for x in links_down))\n        )[: 1 + (len({x[2].name for x in links_down}) > 1)]")

# ---- cross-object state
m("x_shared_graph_by_name", "C09 C08", N, "        self._graph = nx.DiGraph(name=name)", "        self._graph = _GRAPHS.setdefault(name, nx.DiGraph(name=name))\n\n    global _GRAPHS\n    _GRAPHS = {}")

# ---- BENIGN changes: the property still holds, every check must stay silent (ids start with ok_)
ALL = "C06 C08 C09 C12 C13 C14 C19"
m("ok_addpath_materialise_first", ALL, N, "        path = iter(path)\n        first_node = next(path)", "        path = iter(list(path))\n        first_node = next(path)")
m("ok_addnodes_materialise_first", ALL, N, "        for node in nodes:\n            self.add_node(node)", "        for node in list(nodes):\n            self.add_node(node)")
m("ok_addlinks_materialise_first", ALL, N, "        for node_up, link, node_down in links:\n            self.add_link(node_up, link, node_down)", "        for node_up, link, node_down in tuple(links):\n            self.add_link(node_up, link, node_down)")
m("ok_use_case_insensitive", ALL, CO, "        engines = get_available_engines()\n        if engine not in engines:", "        engines = get_available_engines()\n        engine = engine.lower() if isinstance(engine, str) else engine\n        if engine not in engines:")
m("ok_invalidate_before_and_after", ALL, "util/funcs.py", "            return func(*args, **kwargs)\n\n        return wrapper", "            try:\n                return func(*args, **kwargs)\n            finally:\n                if invalidate_cached_properties is not None and args:\n                    invalidate_cached_properties(args[0])\n\n        return wrapper")
m("ok_isvalid_messages_reworded", ALL, N, "                msgs.append(f\"Node {node.name} is connected to no link.\")", "                msgs.append(f\"Isolated node: {node.name!r}.\")")
mm("ok_flow_share_reassociated", ALL, [(NP, "        return (beta / np.sum(betas, 0)) * Q", "        return (beta * Q) / np.sum(betas, 0)"), (CA, "        return (beta / cs.sum1(betas)) * Q", "        return (beta * Q) / cs.sum1(betas)")])
m("ok_symbol_names_changed", ALL, LK, "                else engine.var(f\"{name}_{self.name}\", self.N)", "                else engine.var(f\"{self.name}.{name}\", self.N)")
m("ok_tofunction_error_text", ALL, CA, "                    f\"Found no next state in {el.name}; perhaps dynamics have \"\n                    \"not been stepped via `net.step`?\"", "                    f\"Element {el.name} has not been stepped.\"")
m("ok_step_clears_next_states_first", ALL, N, "        # initialization\n        if init_conditions is None:\n            init_conditions = {}", "        # initialization\n        for el in self.elements:\n            el.next_states = None\n        if init_conditions is None:\n            init_conditions = {}")
m("ok_addpath_checks_types_upfront", ALL, N, "        path = iter(path)\n        first_node = next(path)", "        path = list(path)\n        if len(path) > 1:\n            for i_, p_ in enumerate(path):\n                if not isinstance(p_, Link if i_ % 2 else Node):\n                    raise TypeError(f'bad path element at {i_}')\n            if len(path) % 2 == 0:\n                raise TypeError('path must end with a node')\n        path = iter(path)\n        first_node = next(path)")
m("ok_isvalid_returns_tuple_msgs", ALL, N, "        return not msgs, msgs", "        return not msgs, list(msgs)")

def run(prop, src, runs):
    env = dict(os.environ, SYM_METANET_SRC=src)
    p = subprocess.run(["/venv/bin/python", "-m", "sim.check", prop, "--runs", str(runs), "--no-evidence"], cwd="/verif", env=env, capture_output=True, text=True, timeout=1800)
    viol = [l for l in p.stdout.splitlines() if l.startswith("  C") or l.startswith("HARNESS")]
    return p.returncode, viol

def main():
    args = sys.argv[1:]
    runs = 20000
    if "--runs" in args:
        i = args.index("--runs"); runs = int(args[i+1]); del args[i:i+2]
    only = [a for a in args if not a.startswith("C") or len(a) != 3]
    props = [a for a in args if a.startswith("C") and len(a) == 3]
    tmp = tempfile.mkdtemp(prefix="mut_", dir="/tmp")
    missed = []
    try:
        for id, ps, edits in M:
            if only and not any(o in id for o in only): continue
            if props and not set(ps) & set(props): continue
            shutil.rmtree(os.path.join(tmp, "src"), ignore_errors=True)
            shutil.copytree("/repo/src", os.path.join(tmp, "src"))
            bad = False
            for file, old, new in edits:
                path = os.path.join(tmp, "src", "sym_metanet", file)
                s = open(path).read()
                if s.count(old) != 1:
                    print(f"{id}: PATTERN x{s.count(old)} in {file} -- skipped"); bad = True; break
                open(path, "w").write(s.replace(old, new))
            if bad: continue
            for p in ps:
                if props and p not in props: continue
                rc, viol = run(p, os.path.join(tmp, "src"), runs)
                benign = id.startswith("ok_")
                tag = ({0: "silent (ok)", 1: "FALSE ALARM", 2: "harness"} if benign else {0: "MISSED", 1: "caught", 2: "harness"}).get(rc, f"rc={rc}")
                if (rc != 0) if benign else (rc != 1): missed.append((id, p))
                print(f"{id} [{p}]: {tag} {viol[0][:150] if viol else ''}", flush=True)
    finally:
        shutil.rmtree(tmp, ignore_errors=True)
        shutil.rmtree("/verif/replays", ignore_errors=True)
    print("MISSED:", missed)

main()
